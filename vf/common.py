"""Shared protocol: evidence files, known findings, exit codes, scratch dirs."""

import atexit
import json
import os
import shutil
import sys
import tempfile
import time

VERIF = os.path.dirname(os.path.dirname(os.path.abspath(__file__)))
REPO = os.environ.get("VERIF_REPO", "/repo")
EVIDENCE_DIR = os.environ.get("VERIF_EVIDENCE_DIR") or os.path.join(VERIF, "evidence")
REPLAY_DIR = os.path.join(EVIDENCE_DIR, "replay")

EXIT_OK = 0
EXIT_VIOLATION = 1
EXIT_HARNESS = 3

if REPO not in sys.path:
    sys.path.insert(0, REPO)


def seed():
    try:
        return int(os.environ.get("VERIF_SEED", "0"))
    except ValueError:
        return 0


def ncpu():
    try:
        return max(1, int(os.environ.get("VERIF_JOBS", "") or os.cpu_count() or 1))
    except ValueError:
        return os.cpu_count() or 1


_scratch = []


def scratch_dir(prefix="verif-"):
    base = os.environ.get("VERIF_SCRATCH") or tempfile.gettempdir()
    d = tempfile.mkdtemp(prefix=prefix, dir=base)
    _scratch.append(d)
    return d


def _cleanup():
    for d in _scratch:
        shutil.rmtree(d, ignore_errors=True)


atexit.register(_cleanup)


def load_known_findings():
    p = os.path.join(VERIF, "known_findings.json")
    try:
        with open(p) as f:
            return json.load(f)
    except FileNotFoundError:
        return {"findings": [], "fixed": []}


class Report:
    """Collects the outcome of one check run and writes evidence/<id>.json."""

    def __init__(self, prop, tier, level):
        self.prop = prop
        self.tier = tier
        self.level = level
        self.t0 = time.time()
        self.coverage = {"samples": []}
        self.assumptions = []
        self.violations = []  # (key, description, replay_path)
        self.known = []  # matched known findings
        self.inconclusive = []
        self.harness_errors = []
        self.extra = {}
        self._known = [
            f for f in load_known_findings().get("findings", []) if f.get("property") == prop
        ]
        self._nreplay = 0

    # -- findings -------------------------------------------------------
    def match_known(self, key):
        """key: dict describing the violation class; a known finding matches
        if every item of its 'match' dict equals the key's."""
        for f in self._known:
            m = f.get("match", {})
            if m and all(key.get(k) == v for k, v in m.items()):
                return f
        return None

    def violation(self, key, description, replay_obj):
        """A counterexample that reproduced against the real code."""
        f = self.match_known(key)
        if f is not None:
            if f["id"] not in [k["id"] for k in self.known]:
                self.known.append(f)
                print("KNOWN-FINDING: property=%s %s" % (self.prop, f["what"]), flush=True)
            return False
        os.makedirs(REPLAY_DIR, exist_ok=True)
        self._nreplay += 1
        path = os.path.join(REPLAY_DIR, "%s-%d.json" % (self.prop, self._nreplay))
        with open(path, "w") as fh:
            json.dump({"property": self.prop, "key": key, "description": description,
                       "replay": replay_obj}, fh, indent=1, default=str)
        self.violations.append((key, description, path))
        print("VIOLATION property=%s replay=%s" % (self.prop, path), flush=True)
        print("  " + description, flush=True)
        return True

    def inconclusive_item(self, what):
        self.inconclusive.append(what)
        print("INCONCLUSIVE property=%s %s" % (self.prop, what), flush=True)

    def harness_error(self, what):
        self.harness_errors.append(what)
        print("HARNESS-ERROR property=%s %s" % (self.prop, what), flush=True)

    def sample(self, obj, cap=12):
        if len(self.coverage["samples"]) < cap:
            self.coverage["samples"].append(obj)

    # -- output ---------------------------------------------------------
    def finish(self):
        os.makedirs(EVIDENCE_DIR, exist_ok=True)
        cov = dict(self.coverage)
        cov["inconclusive"] = len(self.inconclusive)
        cov["inconclusive_items"] = self.inconclusive[:50]
        cov["known_findings_reported"] = [k["id"] for k in self.known]
        if not cov["samples"]:
            cov["samples"] = ["(no sample recorded)"]
        ev = {
            "property_id": self.prop,
            "tier": self.tier,
            "seed": seed(),
            "level": self.level,
            "coverage": cov,
            "assumptions": self.assumptions,
            "wall_s": round(time.time() - self.t0, 2),
            "violations": len(self.violations),
        }
        ev.update(self.extra)
        path = os.path.join(EVIDENCE_DIR, "%s.json" % self.prop)
        with open(path, "w") as fh:
            json.dump(ev, fh, indent=1, default=str)
        if self.violations:
            # a counterexample that reproduced against the real code stands on
            # its own, whatever else went wrong in the run
            return EXIT_VIOLATION
        if self.harness_errors:
            print("%s: harness error (%d); no verdict" % (self.prop, len(self.harness_errors)))
            return EXIT_HARNESS
        print(
            "%s [%s]: held on everything explored; wall %.1fs; inconclusive=%d known=%d"
            % (self.prop, self.tier, time.time() - self.t0, len(self.inconclusive), len(self.known)),
            flush=True,
        )
        return EXIT_OK
