"""Shared driver for the leaf-kernel parts of C02 (decode), C03 (encode) and
C04 (memory safety / UB / internal checks) -- E2 on runtime/cpp/*.h."""

import multiprocessing
import os
import shutil
import subprocess
import time
import traceback

import z3

from vf import common, cxx, kernels, ll2smt
from vf.llparse import NotEncoded

BV = z3.BitVecVal
NMAX = 24  # buffer length bound (containers end at byte <= 16)


class BatchResult:
    def __init__(self):
        self.configs = 0
        self.functions = 0
        self.instrs = 0
        self.queries = 0
        self.unsat = 0
        self.sat_expected = 0  # reachability witnesses / controls that must be sat
        self.unknown = []
        self.candidates = []
        self.not_encoded = []
        self.errors = []
        self.solver_s = 0.0
        self.compile_s = 0.0
        self.samples = []
        self.obligation_sites = {}
        self.controls_fired = 0
        self.controls_total = 0
        self.witnesses = 0


def _setup(cfg, writable):
    buf = cxx.SymBuf("buf", NMAX, align=cfg.A, align_off=cfg.O, writable=writable)
    mem = cxx.fresh_memory()
    return buf, mem


def _container_bytes(cfg, buf, mem):
    return lambda i: buf.byte(mem, cfg.koff + i)


def _present(cfg, buf):
    return z3.UGE(buf.n, BV(cfg.koff + cfg.nbytes, 64))


def _model_inputs(model, cfg, buf, mem, extra=None):
    n = model.eval(buf.n, model_completion=True).as_long()
    base = model.eval(buf.B, model_completion=True).as_long()
    count = max(n, cfg.koff + cfg.nbytes)
    data = [model.eval(buf.byte(mem, i), model_completion=True).as_long() for i in range(min(count, NMAX + 8))]
    d = {"cfg": cfg.as_dict(), "n": n, "base_mod_16": base % 16, "bytes": data}
    if extra:
        d.update(extra)
    return d


def _ret64(r, signed):
    v = r.ret
    if z3.is_bool(v):
        return v
    if v.size() < 64:
        return z3.SignExt(64 - v.size(), v) if signed else z3.ZeroExt(64 - v.size(), v)
    return v


class Q:
    """Query helper bound to a BatchResult."""

    def __init__(self, res, pre, timeout_ms=120000):
        self.res, self.pre, self.timeout_ms = res, pre, timeout_ms

    def _check(self, *fs):
        s = z3.Solver()
        s.set("timeout", self.timeout_ms)
        s.add(*self.pre)
        s.add(*fs)
        t0 = time.time()
        r = str(s.check())
        self.res.solver_s += time.time() - t0
        self.res.queries += 1
        return r, (s.model() if r == "sat" else None)

    def must_hold(self, name, formula, on_cex):
        """formula valid under pre?  sat of the negation -> candidate."""
        r, m = self._check(z3.Not(formula))
        if r == "unsat":
            self.res.unsat += 1
            return True
        if r == "sat":
            self.res.candidates.append(on_cex(m, name))
        else:
            self.res.unknown.append(name)
        return False

    def must_be_sat(self, name, formula):
        r, m = self._check(formula)
        if r == "sat":
            self.res.sat_expected += 1
            return True
        self.res.unknown.append("witness %s: %s" % (name, r))
        return False


def _run(ex, q, fn, args, mem, regions):
    """Runs one entry point; a reachable loop-bound overrun makes the
    function's obligations inconclusive (never passed)."""
    r = ex.run(fn, args, mem, regions)
    q.res.functions += 1
    q.res.instrs += r.instrs
    if not z3.is_false(z3.simplify(r.unwind_exceeded)):
        st, _ = q._check(r.unwind_exceeded)
        if st != "unsat":
            q.res.unknown.append("%s: loop unrolling bound %d exceeded (%s)" % (fn, ex.unroll, st))
    return r


def check_decode(ex, idx, cfg, res, controls):
    """C02 for one configuration."""
    name = "k%d" % idx
    buf, mem = _setup(cfg, writable=False)
    q = Q(res, buf.pre)
    V = kernels.container_value(cfg, _container_bytes(cfg, buf, mem))
    F = kernels.field_bits(cfg, V)
    present = _present(cfg, buf)
    okspec = z3.And(present, kernels.ok_spec(cfg, F))
    r_ok = _run(ex, q, name + "_ok", [buf.B, buf.n], mem, [buf.region])
    r_rd = _run(ex, q, name + "_read", [buf.B, buf.n], mem, [buf.region])
    cex = lambda m, what: _model_inputs(m, cfg, buf, mem, {"what": what})
    q.must_hold("%s Ok() == present && well-formed" % name, r_ok.ret == okspec, cex)
    spec = kernels.read_spec(cfg, F)
    got = _ret64(r_rd, cfg.signed)
    if cfg.ty == "Flag" and not z3.is_bool(got):
        got = got != BV(0, got.size())
    if cfg.ty == "Flag":
        q.must_hold("%s Read() == spec" % name, z3.Implies(okspec, got == spec), cex)
    else:
        q.must_hold("%s Read() == spec" % name, z3.Implies(okspec, got == spec), cex)
    # value type wide enough and of the right signedness
    r_sz = ex.run(name + "_vsize", [], mem, [])
    r_sg = ex.run(name + "_vsigned", [], mem, [])
    need = 1 if cfg.ty == "Flag" else cfg.w
    q.must_hold("%s sizeof(ValueType)*8 >= width" % name, z3.UGE(r_sz.ret * 8, BV(need, r_sz.ret.size())),
                lambda m, what: {"cfg": cfg.as_dict(), "what": what, "n": 0, "bytes": []})
    if cfg.ty in ("Int", "EnumS", "UInt", "EnumU", "Bcd"):
        want_signed = cfg.ty in ("Int", "EnumS")
        q.must_hold("%s ValueType signedness" % name, r_sg.ret == z3.BoolVal(want_signed),
                    lambda m, what: {"cfg": cfg.as_dict(), "what": what, "n": 0, "bytes": []})
    # vacuity: the readable case is reachable
    if q.must_be_sat("%s readable" % name, okspec):
        res.witnesses += 1
    if controls:
        # negative control: the same comparison against a deliberately wrong
        # oracle (field shifted by one bit / other byte order) must be sat
        res.controls_total += 1
        if cfg.c > cfg.w:
            o2 = cfg.o + 1 if cfg.o + cfg.w < cfg.c else cfg.o - 1
            wrong = kernels.Cfg(cfg.ty, cfg.c, o2, cfg.w, cfg.order, cfg.kind, cfg.A, cfg.O, cfg.SA, cfg.koff, cfg.ubits)
            Fw = kernels.field_bits(wrong, V)
        else:
            wrong = kernels.Cfg(cfg.ty, cfg.c, cfg.o, cfg.w, "BE" if cfg.order != "BE" else "LE", cfg.kind, cfg.A,
                                cfg.O, cfg.SA, cfg.koff, cfg.ubits)
            Fw = kernels.field_bits(wrong, kernels.container_value(wrong, _container_bytes(cfg, buf, mem)))
        if cfg.c == 8 and cfg.w == 8:
            res.controls_total -= 1  # no distinguishable wrong oracle for a whole single byte
        else:
            r, _ = q._check(okspec, z3.And(present, kernels.ok_spec(wrong, Fw)), got != kernels.read_spec(wrong, Fw))
            if r == "sat":
                res.controls_fired += 1
    if len(res.samples) < 3:
        res.samples.append({"config": repr(cfg), "functions": [name + "_ok", name + "_read"],
                            "ir_instructions": r_ok.instrs + r_rd.instrs,
                            "obligations": ["Ok()==spec", "Read()==spec for all %d-bit container contents and lengths 0..%d" % (cfg.c, NMAX)]})


def _arg_term(cfg, fn_suffix):
    """(argument z3 term as passed, its mathematical-value interpretation as a
    signed 66-bit term)."""
    if cfg.ty == "Flag":
        x = z3.Bool("x")
        return x, z3.If(x, BV(1, 66), BV(0, 66))
    if cfg.ty == "Bcd":
        vb = 8
        while vb < cfg.w:
            vb *= 2
        x = z3.BitVec("x", vb)
        return x, z3.ZeroExt(66 - vb, x)
    if cfg.ty.startswith("Enum"):
        x = z3.BitVec("x", cfg.ubits)
        return x, (z3.SignExt(66 - cfg.ubits, x) if cfg.ty == "EnumS" else z3.ZeroExt(66 - cfg.ubits, x))
    if cfg.ty == "Float":
        x = z3.BitVec("x", 64)
        return x, z3.ZeroExt(2, x)
    x = z3.BitVec("x", 64)
    return x, (z3.ZeroExt(2, x) if fn_suffix == "u" else z3.SignExt(2, x))


def check_encode(ex, idx, cfg, res, controls, bcd_write_max=32):
    """C03 for one configuration."""
    name = "k%d" % idx
    buf, mem = _setup(cfg, writable=True)
    q = Q(res, buf.pre)
    present = _present(cfg, buf)
    cb = _container_bytes(cfg, buf, mem)
    V = kernels.container_value(cfg, cb)
    suffixes = ["", "u"] if cfg.ty in ("UInt", "Int") else [""]
    lo, hi = kernels.write_range(cfg)
    for sfx in suffixes:
        x, xm = _arg_term(cfg, sfx)
        if cfg.ty == "Float":
            # every bit pattern of the float's own width is a value
            inrange = z3.BoolVal(True)
            xm_used = z3.ZeroExt(2, z3.ZeroExt(64 - cfg.w, z3.Extract(cfg.w - 1, 0, x)))
        else:
            inrange = z3.And(xm >= BV(lo, 66), xm <= BV(hi, 66))
            xm_used = xm
        r_c = _run(ex, q, name + "_could" + sfx, [x], mem, [])
        cexv = lambda m, what: _model_inputs(m, cfg, buf, mem, {
            "what": what, "fn": sfx,
            "x": (1 if z3.is_true(m.eval(x, model_completion=True)) else 0) if z3.is_bool(x)
            else m.eval(x, model_completion=True).as_long(), "x_bits": 1 if z3.is_bool(x) else x.size()})
        q.must_hold("%s CouldWriteValue%s(v) <=> v in range" % (name, sfx), r_c.ret == inrange, cexv)
        if cfg.ty == "Bcd" and cfg.w > bcd_write_max:
            continue  # division-by-10 chains beyond this width do not bit-blast in time (DESIGN.md section 9)
        r_t = _run(ex, q, name + "_try" + sfx, [buf.B, buf.n, x], mem, [buf.region])
        succeed = z3.And(inrange, present)
        q.must_hold("%s TryToWrite%s succeeds <=> representable && present" % (name, sfx), r_t.ret == succeed, cexv)
        mem2 = r_t.mem
        V2 = kernels.container_value(cfg, lambda i: buf.byte(mem2, cfg.koff + i))
        F2 = kernels.field_bits(cfg, V2)
        # read back
        v64 = z3.Extract(63, 0, xm_used)
        if cfg.ty == "Flag":
            rb = kernels.read_spec(cfg, F2) == x
        elif cfg.ty == "Float":
            rb = F2 == z3.Extract(cfg.w - 1, 0, x)
        else:
            rb = z3.And(kernels.read_spec(cfg, F2) == v64, kernels.ok_spec(cfg, F2))
        q.must_hold("%s after a successful write Read() == v" % name + sfx, z3.Implies(succeed, rb), cexv)
        # bits of the container outside the field unchanged
        if cfg.c > cfg.w:
            mask = ((1 << cfg.w) - 1) << cfg.o
            keep = BV(((1 << cfg.c) - 1) & ~mask, cfg.c)
            q.must_hold("%s write leaves the container's other bits unchanged" % name + sfx,
                        z3.Implies(succeed, (V2 & keep) == (V & keep)), cexv)
        # bytes outside the container unchanged (any address), and failed write changes nothing
        j = z3.BitVec("j", 64)
        inside = z3.And(z3.UGE(j, buf.B + cfg.koff), z3.ULT(j, buf.B + cfg.koff + cfg.nbytes))
        q.must_hold("%s write touches no byte outside the container" % name + sfx,
                    z3.Implies(z3.Not(inside), z3.Select(mem2, j) == z3.Select(mem, j)), cexv)
        q.must_hold("%s failed write leaves memory unchanged" % name + sfx,
                    z3.Implies(z3.Not(succeed), z3.Select(mem2, j) == z3.Select(mem, j)), cexv)
        if q.must_be_sat("%s write reachable" % name, succeed):
            res.witnesses += 1
        if controls and cfg.c > cfg.w:
            res.controls_total += 1
            # wrong oracle: claims the neighbouring bit is also preserved as a field bit
            o2 = cfg.o + 1 if cfg.o + cfg.w < cfg.c else cfg.o - 1
            wrong = kernels.Cfg(cfg.ty, cfg.c, o2, cfg.w, cfg.order, cfg.kind, cfg.A, cfg.O, cfg.SA, cfg.koff, cfg.ubits)
            maskw = ((1 << cfg.w) - 1) << o2
            keepw = BV(((1 << cfg.c) - 1) & ~maskw, cfg.c)
            r, _ = q._check(succeed, (V2 & keepw) != (V & keepw))
            if r == "sat":
                res.controls_fired += 1
    if len(res.samples) < 3:
        res.samples.append({"config": repr(cfg), "functions": [name + "_could", name + "_try"],
                            "obligations": ["CouldWriteValue iff in range (argument at full 64-bit width)",
                                            "TryToWrite iff representable and present", "read-back", "neighbour bits",
                                            "other bytes", "failed write leaves memory unchanged"]})


def check_safety(ex, idx, cfg, res, writable, build):
    """C04 for one configuration: every obligation the executor emitted for
    the checked entry points must be unreachable."""
    name = "k%d" % idx
    for null_buffer in (False, True):
        buf, mem = _setup(cfg, writable=writable)
        pre = list(buf.pre)
        if null_buffer:
            # the view built over nullptr: every checked call must still be safe
            pre = [buf.B == BV(0, 64), z3.ULE(buf.n, BV(NMAX, 64))]
            region = ll2smt.Region("buf", buf.B, BV(0, 64))
        else:
            region = buf.region
        q = Q(res, pre)
        fns = [(name + "_ok", [buf.B, buf.n]), (name + "_read", [buf.B, buf.n])]
        if writable:
            sfxs = ["", "u"] if cfg.ty in ("UInt", "Int") else [""]
            for sfx in sfxs:
                x, _ = _arg_term(cfg, sfx)
                fns.append((name + "_could" + sfx, [x]))
                fns.append((name + "_try" + sfx, [buf.B, buf.n, x]))
        for fn, args in fns:
            if null_buffer and len(args) < 2:
                continue
            r = _run(ex, q, fn, args, mem, [region])
            for ob in r.obligations:
                res.obligation_sites[ob.kind] = res.obligation_sites.get(ob.kind, 0) + 1
                what = "%s [%s build%s] %s at %s %s" % (fn, build, ", null buffer" if null_buffer else "", ob.kind, ob.site, ob.detail)
                q.must_hold(what, z3.Not(ob.violated),
                            lambda m, w, args=args, fn=fn: _model_inputs(m, cfg, buf, mem, {
                                "what": w, "fn": fn, "null": null_buffer,
                                "x": (m.eval(args[2], model_completion=True).as_long() if len(args) > 2 and not z3.is_bool(args[2])
                                      else (1 if len(args) > 2 and z3.is_true(m.eval(args[2], model_completion=True)) else 0))}))
            if not null_buffer:
                # vacuity: the function returns on some input
                if q.must_be_sat(fn + " returns", r.ret_guard):
                    res.witnesses += 1
    if len(res.samples) < 3:
        res.samples.append({"config": repr(cfg), "build": build, "entry_points": [f for f, _ in fns]})


def run_batch(job):
    """job = (mode, batch_index, first_index, [cfg dicts], options)"""
    mode, bi, first, cfgds, opts = job
    res = BatchResult()
    res.batch_index = bi
    z3.set_param("smt.random_seed", 0)
    cfgs = [kernels.cfg_from_dict(d) for d in cfgds]
    res.configs = len(cfgs)
    writable = mode in ("encode", "safety_w")
    d = common.scratch_dir("verif-k-")
    try:
        src = os.path.join(d, "drv.cc")
        with open(src, "w") as f:
            f.write(kernels.gen_source(cfgs, writable, first))
        builds = [("O2", cxx.O2_FLAGS)]
        if mode.startswith("safety"):
            builds.append(("ubsan-trap", cxx.TRAP_FLAGS))
        for bname, flags in builds:
            t0 = time.time()
            try:
                text = cxx.compile_ir(src, os.path.join(d, "drv.%s.ll" % bname), flags)
            except cxx.CompileError as e:
                res.errors.append(str(e)[-1500:])
                continue
            res.compile_s += time.time() - t0
            mod = ll2smt.parse(text)
            ex = ll2smt.Executor(mod, unroll=20, check_flags=mode.startswith("safety"))
            for i, cfg in enumerate(cfgs):
                try:
                    if mode == "decode":
                        check_decode(ex, first + i, cfg, res, controls=(i % 7 == 0))
                    elif mode == "encode":
                        check_encode(ex, first + i, cfg, res, controls=(i % 7 == 0),
                                     bcd_write_max=opts.get("bcd_write_max", 32))
                    else:
                        check_safety(ex, first + i, cfg, res, writable, bname)
                except NotEncoded as e:
                    res.not_encoded.append("%r: %s" % (cfg, e))
                except Exception as e:  # pylint: disable=broad-except
                    res.errors.append("%r: %s" % (cfg, "".join(traceback.format_exception(type(e), e, e.__traceback__))[-1200:]))
    finally:
        shutil.rmtree(d, ignore_errors=True)
    return res


def run_all(mode, cfgs, opts=None, batch=120):
    jobs = []
    for bi, s in enumerate(range(0, len(cfgs), batch)):
        jobs.append((mode, bi, s, [c.as_dict() for c in cfgs[s:s + batch]], opts or {}))
    total = BatchResult()
    # watchdog: z3 does not always honour its timeout inside preprocessing; if no batch finishes for `stall_s`
    # seconds the batches still outstanding are reported as inconclusive and their workers are terminated
    stall_s = int(os.environ.get("VERIF_STALL_S", "1500"))
    pending = {j[1]: j for j in jobs}
    pool = multiprocessing.Pool(common.ncpu())
    try:
        it = pool.imap_unordered(run_batch, jobs)
        while pending:
            try:
                r = it.next(timeout=stall_s)
            except multiprocessing.TimeoutError:
                for bi, j in sorted(pending.items()):
                    total.unknown.append("batch %d (%s, configurations %d..%d) did not finish within %d s without progress: "
                                         "solver call not interruptible" % (bi, mode, j[2], j[2] + len(j[3]) - 1, stall_s))
                break
            except StopIteration:
                break
            pending.pop(getattr(r, "batch_index", None), None)
            for k in ("configs", "functions", "instrs", "queries", "unsat", "sat_expected", "solver_s", "compile_s",
                      "controls_fired", "controls_total", "witnesses"):
                setattr(total, k, getattr(total, k) + getattr(r, k))
            total.unknown += r.unknown
            total.candidates += r.candidates
            total.not_encoded += r.not_encoded
            total.errors += r.errors
            for k, v in r.obligation_sites.items():
                total.obligation_sites[k] = total.obligation_sites.get(k, 0) + v
            if len(total.samples) < 8:
                total.samples += r.samples[:2]
    finally:
        pool.terminate()
        pool.join()
    return total


# ----------------------------------------------------------------------
# Native replay
# ----------------------------------------------------------------------

MAIN = r"""
#include <cstdio>
#include <cstdlib>
#include <cstring>
#include <sanitizer/asan_interface.h>
int main() {
  unsigned long n, count, x; int fn_kind, is_null;
  if (scanf("%lu %lu %lu %d %d", &n, &count, &x, &fn_kind, &is_null) != 5) return 2;
  // exact-size allocation at the promised alignment: the buffer ends where the heap block ends and the
  // lead-in bytes are poisoned, so ASan reports any access outside [p, p+n)
  unsigned long pad = ALIGN_O;  // malloc returns 16-byte aligned blocks and ALIGN_A <= 16
  unsigned char* raw = static_cast<unsigned char*>(malloc(n + pad ? n + pad : 1));
  if (reinterpret_cast<unsigned long>(raw) % 16 != 0) return 2;
  if (pad) __asan_poison_memory_region(raw, pad);
  if (n + pad == 0) __asan_poison_memory_region(raw, 1);
  unsigned char* p = raw + pad;
  for (unsigned long i = 0; i < count; ++i) { unsigned b; if (scanf("%x", &b) != 1) return 2; if (i < n) p[i] = (unsigned char)b; }
  if (is_null) p = nullptr;
  bool ok = KOK(p, n);
  printf("ok %d\n", ok ? 1 : 0);
  if (ok) printf("read %llu\n", (unsigned long long)KREAD(p, n));
#ifdef WRITABLE
  if (fn_kind == 1) { printf("could %d\n", KCOULD(x) ? 1 : 0); printf("try %d\n", KTRY(p, n, x) ? 1 : 0); }
  if (fn_kind == 2) { printf("could %d\n", KCOULDU(x) ? 1 : 0); printf("try %d\n", KTRYU(p, n, x) ? 1 : 0); }
  printf("after");
  for (unsigned long i = 0; i < n; ++i) printf(" %02x", p ? p[i] : 0);
  printf("\n");
#endif
  printf("vsize %u vsigned %d\n", KVSIZE(), KVSIGNED() ? 1 : 0);
  __asan_unpoison_memory_region(raw, n + pad ? n + pad : 1);
  free(raw);
  return 0;
}
"""


def native_run(cfg, n, data, x=0, fn_kind=0, writable=False, is_null=False):
    """Compiles the one-configuration driver natively with ASan+UBSan and the
    runtime's checks enabled, runs it on the concrete input.  Returns a dict
    of observed values, or {'crash': text}."""
    d = common.scratch_dir("verif-replay-")
    try:
        src = os.path.join(d, "replay.cc")
        body = kernels.gen_source([cfg], writable, 0)
        defs = "#define ALIGN_A %d\n#define ALIGN_O %d\n#define KOK k0_ok\n#define KREAD k0_read\n" % (max(cfg.A, 1), cfg.O)
        defs += "#define KVSIZE k0_vsize\n#define KVSIGNED k0_vsigned\n"
        if writable:
            defs += "#define WRITABLE 1\n#define KCOULD k0_could\n#define KTRY k0_try\n"
            if cfg.ty in ("UInt", "Int"):
                defs += "#define KCOULDU k0_couldu\n#define KTRYU k0_tryu\n"
            else:
                defs += "#define KCOULDU k0_could\n#define KTRYU k0_try\n"
        with open(src, "w") as f:
            f.write(body + defs + MAIN)
        exe = os.path.join(d, "replay")
        cxx.compile_native(src, exe)
        count = len(data)
        stdin = "%d %d %d %d %d\n%s\n" % (n, count, x % (1 << 64), fn_kind, 1 if is_null else 0,
                                          " ".join("%x" % b for b in data))
        try:
            rc, out, err = cxx.run_native(exe, stdin)
        except subprocess.TimeoutExpired:
            return {"crash": "timeout"}
        obs = {}
        for line in out.splitlines():
            parts = line.split()
            if not parts:
                continue
            if parts[0] in ("ok", "read", "could", "try"):
                obs[parts[0]] = int(parts[1])
            elif parts[0] == "after":
                obs["after"] = [int(b, 16) for b in parts[1:]]
            elif parts[0] == "vsize":
                obs["vsize"], obs["vsigned"] = int(parts[1]), int(parts[3])
        if rc != 0:
            text = err or out
            key_lines = [l for l in text.splitlines() if "ERROR:" in l or "runtime error" in l or "SUMMARY:" in l
                         or "Assertion" in l or " of size " in l]
            obs["crash"] = ("\n".join(key_lines[:6]) + "\n" if key_lines else "") + text[-300:]
        return obs
    finally:
        shutil.rmtree(d, ignore_errors=True)
