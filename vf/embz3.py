"""Reference semantics of Emboss structures as z3 terms (DESIGN.md A.2/A.3).

Written from doc/language-reference.md and doc/cpp-reference.md.  Integers
are 128-bit signed bit-vectors (every run-time value of an accepted module
fits 64 bits, so 128 bits never wrap; products are additionally guarded),
expressions are three-valued (known/unknown).

Reads from the final IR only: the user-visible structure (fields, types,
locations, conditions, attributes, resolved references).  It does not use the
inferred bounds, `fields_in_dependency_order`, the synthesized `$size_in_*`
virtual fields (sizes are recomputed from the physical fields) or write
methods.  Trusted from the front end: name resolution, the desugaring of
`$next` and anonymous bits (cross-checked structurally in c01), the constants
of $upper_bound/$lower_bound (decided in C05).
"""

import z3

from compiler.util import ir_data, ir_util

W = 128
FM = ir_data.FunctionMapping


class Unsupported(Exception):
    """The reference does not model this feature; the structure/field is
    listed as skipped in the evidence."""


def I(v):
    return z3.BitVecVal(v, W)


T = z3.BoolVal(True)
F = z3.BoolVal(False)


class Val:
    __slots__ = ("known", "v", "kind")

    def __init__(self, known, v, kind):
        self.known, self.v, self.kind = known, v, kind


def known_int(v):
    return Val(T, I(v) if isinstance(v, int) else v, "int")


def unknown(kind):
    return Val(F, I(0) if kind != "bool" else F, kind)


class Root:
    """The backing buffer: byte(i) for a 128-bit byte index, length n."""

    def __init__(self, byte_fn, n128, nonnull=T):
        self.byte_fn, self.n, self.nonnull = byte_fn, n128, nonnull

    def byte(self, idx128):
        return self.byte_fn(idx128)


class ByteInst:
    def __init__(self, ctx, tdef, start, avail, backing_ok, params):
        self.ctx, self.tdef, self.start, self.avail, self.backing_ok, self.params = (
            ctx, tdef, start, avail, backing_ok, params)
        self.unit = 8
        self._cache = {}


class BitInst:
    def __init__(self, ctx, tdef, V, cbits, off, nbits, ok, params):
        self.ctx, self.tdef, self.V, self.cbits, self.off, self.nbits, self.backing_ok, self.params = (
            ctx, tdef, V, cbits, off, nbits, ok, params)
        self.unit = 1
        self._cache = {}


class Scalar:
    """A readable leaf: ok (Bool) and value (Val).  `extent` = (first byte as a
    128-bit offset from the start of the root buffer, number of bytes) of the
    bytes that hold it (for a bits member: its container), when known."""

    def __init__(self, ok, val, present=None, raw=None, extent=None):
        self.ok, self.val, self.present, self.raw, self.extent = ok, val, present, raw, extent


class Aggregate:
    def __init__(self, inst, loc_ok):
        self.inst, self.loc_ok = inst, loc_ok


class Array:
    def __init__(self, elems, count, ok, complete_count_known):
        self.elems, self.count, self.ok, self.count_known = elems, count, ok, complete_count_known


class _ElemField:
    """Stands in for ir_data.Field when an array element is decoded: the
    array field's attributes (byte order) apply, its [requires] does not."""

    def __init__(self, field, offset, size):
        self.field, self.offset, self.size = field, offset, size
        self.name = field.name
        self.type = field.type.array_type.base_type
        self.attribute = [a for a in field.attribute if a.name.text != "requires"]
        self.location = _ElemLoc(size)


class _ElemLoc:
    def __init__(self, size):
        self.size = _ConstExpr(size)
        self.start = None


class _ConstExpr:
    which_expression = "constant"

    def __init__(self, v):
        class _C:
            value = str(v)
        self.constant = _C()


def smin(a, b):
    return z3.If(a <= b, a, b)


def smax(a, b):
    return z3.If(a >= b, a, b)


class Ctx:
    def __init__(self, ir, root, max_array=4):
        self.ir = ir
        self.root = root
        self.max_array = max_array
        self.assumptions = []  # e.g. array element count <= max_array
        self.side = []  # "no 128-bit overflow" side conditions (must hold)
        self.depth = 0
        self.fold_constants = True

    # ------------------------------------------------------------------
    # types
    # ------------------------------------------------------------------
    def type_def(self, atomic_type):
        return ir_util.find_object(atomic_type.reference.canonical_name, self.ir)

    def fixed_size_bits(self, tdef):
        """Static size of a type definition in bits, or None."""
        if tdef.has_field("enumeration") or tdef.has_field("external"):
            return None
        total = 0
        for f in tdef.structure.field:
            if ir_util.field_is_virtual(f):
                continue
            if not (self.is_const(f.location.start) and self.is_const(f.location.size)):
                return None
            if not self.is_true_const(f.existence_condition):
                return None
            total = max(total, self.const(f.location.start) + self.const(f.location.size))
        return total * (8 if tdef.addressable_unit == ir_data.AddressableUnit.BYTE else 1)

    # constants by *syntactic* evaluation (no annotations)
    def is_const(self, e):
        try:
            self.const(e)
            return True
        except Unsupported:
            return False

    def is_true_const(self, e):
        try:
            return self.const(e) is True
        except Unsupported:
            return False

    def const(self, e):
        w = e.which_expression
        if w == "constant":
            return int(e.constant.value)
        if w == "boolean_constant":
            return bool(e.boolean_constant.value)
        if w == "constant_reference":
            obj = ir_util.find_object(e.constant_reference.canonical_name, self.ir)
            if isinstance(obj, ir_data.EnumValue):
                return self.const(obj.value)
            if isinstance(obj, ir_data.Field) and ir_util.field_is_virtual(obj):
                return self.const(obj.read_transform)
            raise Unsupported("constant reference")
        if w == "function":
            fn = e.function.function
            if fn in (FM.UPPER_BOUND, FM.LOWER_BOUND):
                # the compiler's constant (decided sound in C05)
                return int(e.type.integer.modular_value)
            args = [self.const(a) for a in e.function.args]
            table = {
                FM.ADDITION: lambda a, b: a + b, FM.SUBTRACTION: lambda a, b: a - b,
                FM.MULTIPLICATION: lambda a, b: a * b, FM.EQUALITY: lambda a, b: a == b,
                FM.INEQUALITY: lambda a, b: a != b, FM.LESS: lambda a, b: a < b,
                FM.LESS_OR_EQUAL: lambda a, b: a <= b, FM.GREATER: lambda a, b: a > b,
                FM.GREATER_OR_EQUAL: lambda a, b: a >= b, FM.AND: lambda a, b: a and b,
                FM.OR: lambda a, b: a or b, FM.CHOICE: lambda c, a, b: a if c else b,
                FM.MAXIMUM: lambda *a: max(a),
            }
            if fn in table:
                return table[fn](*args)
        raise Unsupported("not a syntactic constant")

    # ------------------------------------------------------------------
    # expressions
    # ------------------------------------------------------------------
    def eval(self, e, inst, self_binding=None):
        w = e.which_expression
        kind = {"integer": "int", "boolean": "bool", "enumeration": "enum"}.get(e.type.which_type)
        if self.fold_constants and w in ("function", "field_reference"):
            # An expression the front end proved constant is rendered as a C++
            # constant and is therefore known even where an operand is not
            # readable.  That the annotated constant is the expression's value
            # for every environment is decided in C05 (layer c), not here.
            t = e.type
            if kind == "int" and t.integer.modulus == "infinity":
                return known_int(int(t.integer.modular_value))
            if kind == "bool" and t.boolean.has_field("value"):
                return Val(T, z3.BoolVal(bool(t.boolean.value)), "bool")
            if kind == "enum" and t.enumeration.has_field("value"):
                return Val(T, I(int(t.enumeration.value)), "enum")
        if w == "constant":
            return known_int(int(e.constant.value))
        if w == "boolean_constant":
            return Val(T, z3.BoolVal(bool(e.boolean_constant.value)), "bool")
        if w == "constant_reference":
            obj = ir_util.find_object(e.constant_reference.canonical_name, self.ir)
            if isinstance(obj, ir_data.EnumValue):
                return Val(T, I(self.const(obj.value)), "enum")
            if isinstance(obj, ir_data.Field) and ir_util.field_is_virtual(obj):
                return self.eval(obj.read_transform, None)
            raise Unsupported("constant reference to %r" % type(obj).__name__)
        if w == "field_reference":
            return self.eval_reference(e.field_reference.path, inst, self_binding, kind)
        if w == "builtin_reference":
            name = e.builtin_reference.canonical_name.object_path[0]
            if self_binding is not None and name == "$logical_value":
                return self_binding[1]
            raise Unsupported("builtin %s" % name)
        if w == "function":
            return self.eval_function(e, inst, self_binding, kind)
        raise Unsupported("expression kind %r" % w)

    def eval_function(self, e, inst, sb, kind):
        fn = e.function.function
        args = e.function.args
        if fn == FM.PRESENCE:
            path = args[0].field_reference.path
            owner, field = self.resolve_owner(path, inst)
            if owner is None:
                return unknown("bool")
            return self.exists(owner, field)
        if fn in (FM.UPPER_BOUND, FM.LOWER_BOUND):
            return known_int(int(e.type.integer.modular_value))
        vs = [self.eval(a, inst, sb) for a in args]
        if fn == FM.AND:
            a, b = vs
            known_false = z3.Or(z3.And(a.known, z3.Not(a.v)), z3.And(b.known, z3.Not(b.v)))
            both = z3.And(a.known, b.known)
            return Val(z3.Or(known_false, both), z3.And(a.v, b.v, z3.Not(known_false)), "bool")
        if fn == FM.OR:
            a, b = vs
            known_true = z3.Or(z3.And(a.known, a.v), z3.And(b.known, b.v))
            both = z3.And(a.known, b.known)
            return Val(z3.Or(known_true, both), z3.Or(known_true, z3.And(both, z3.Or(a.v, b.v))), "bool")
        if fn == FM.CHOICE:
            c, a, b = vs
            return Val(z3.And(c.known, z3.If(c.v, a.known, b.known)), z3.If(c.v, a.v, b.v), a.kind)
        allk = z3.And(*[v.known for v in vs])
        if fn == FM.ADDITION:
            return Val(allk, vs[0].v + vs[1].v, "int")
        if fn == FM.SUBTRACTION:
            return Val(allk, vs[0].v - vs[1].v, "int")
        if fn == FM.MULTIPLICATION:
            a, b = vs[0].v, vs[1].v
            self.side.append(z3.Implies(allk, z3.And(z3.BVMulNoOverflow(a, b, True), z3.BVMulNoUnderflow(a, b))))
            return Val(allk, a * b, "int")
        if fn == FM.MAXIMUM:
            m = vs[0].v
            for v in vs[1:]:
                m = smax(m, v.v)
            return Val(allk, m, "int")
        cmp = {
            FM.EQUALITY: lambda a, b: a == b, FM.INEQUALITY: lambda a, b: a != b,
            FM.LESS: lambda a, b: a < b, FM.LESS_OR_EQUAL: lambda a, b: a <= b,
            FM.GREATER: lambda a, b: a > b, FM.GREATER_OR_EQUAL: lambda a, b: a >= b,
        }.get(fn)
        if cmp is not None:
            return Val(allk, cmp(vs[0].v, vs[1].v), "bool")
        raise Unsupported("function %r" % fn)

    # -- references ------------------------------------------------------
    def find_member(self, inst, name):
        """('param', RuntimeParameter) | ('field', Field) | None."""
        for p in inst.tdef.runtime_parameter:
            if p.name.name.text == name:
                return ("param", p)
        for f in inst.tdef.structure.field:
            if f.name.name.text == name:
                return ("field", f)
        return None

    def resolve_owner(self, path, inst):
        """Walks all but the last element; returns (owner instance, Field) or
        (None, None) if an intermediate view is unusable."""
        cur = inst
        for i, ref in enumerate(path):
            if cur is None:
                return None, None
            name = ref.canonical_name.object_path[-1]
            m = self.find_member(cur, name)
            if m is None:
                raise Unsupported("reference to %s outside the enclosing structure" % name)
            if i == len(path) - 1:
                if m[0] != "field":
                    raise Unsupported("$present of a parameter")
                return cur, m[1]
            if m[0] != "field":
                raise Unsupported("member of a parameter")
            r = self.field(cur, m[1])
            if isinstance(r, Aggregate):
                cur = r.inst
            elif isinstance(r, Scalar) and r.val is None:
                raise Unsupported("path through a non-aggregate")
            else:
                raise Unsupported("path through %s" % type(r).__name__)
        return None, None

    def eval_reference(self, path, inst, sb, kind):
        if inst is None:
            return unknown(kind)
        if sb is not None and len(path) == 1:
            cn = path[0].canonical_name
            if tuple(cn.object_path) == sb[0]:
                return sb[1]
        cur = inst
        for i, ref in enumerate(path):
            name = ref.canonical_name.object_path[-1]
            m = self.find_member(cur, name)
            if m is None:
                raise Unsupported("reference to %s outside the enclosing structure" % name)
            last = i == len(path) - 1
            if m[0] == "param":
                if not last:
                    raise Unsupported("member of a parameter")
                return cur.params[name]
            r = self.field(cur, m[1])
            if last:
                if isinstance(r, Scalar):
                    return Val(z3.And(r.ok, r.val.known), r.val.v, r.val.kind)
                raise Unsupported("reference to an aggregate value")
            if not isinstance(r, Aggregate):
                raise Unsupported("path through a scalar")
            cur = r.inst
        raise Unsupported("empty path")

    # ------------------------------------------------------------------
    # fields
    # ------------------------------------------------------------------
    def exists(self, inst, field):
        key = ("exists", field.name.name.text)
        if key not in inst._cache:
            inst._cache[key] = self.eval(field.existence_condition, inst)
        return inst._cache[key]

    def byte_order(self, field):
        a = ir_util.get_attribute(field.attribute, "byte_order")
        if a is None:
            return None
        return a.string_constant.text

    def requires_of(self, attrs):
        a = ir_util.get_attribute(attrs, "requires")
        return a.expression if a is not None else None

    def field(self, inst, field):
        key = ("field", field.name.name.text)
        if key in inst._cache:
            return inst._cache[key]
        self.depth += 1
        if self.depth > 40:
            raise Unsupported("recursion too deep")
        try:
            r = self._field(inst, field)
        finally:
            self.depth -= 1
        inst._cache[key] = r
        return r

    def _field(self, inst, field):
        ex = self.exists(inst, field)
        if ir_util.field_is_virtual(field):
            return self._virtual(inst, field, ex)
        start = self.eval(field.location.start, inst)
        size = self.eval(field.location.size, inst)
        loc_ok = z3.And(ex.known, ex.v, start.known, size.known, start.v >= 0, size.v >= 0, inst.backing_ok)
        return self._typed(inst, field, field.type, start.v, size.v, loc_ok)

    def _virtual(self, inst, field, ex):
        val = self.eval(field.read_transform, inst)
        ok = z3.And(ex.known, ex.v, val.known)
        req = self.requires_of(field.attribute)
        if req is not None:
            sb = (tuple(field.name.canonical_name.object_path), val)
            rv = self.eval(req, inst, sb)
            ok = z3.And(ok, rv.known, rv.v)
        return Scalar(ok, val)

    def _typed(self, inst, field, ty, start, size, loc_ok):
        if ty.has_field("array_type"):
            return self._array(inst, field, ty, start, size, loc_ok)
        tdef = self.type_def(ty.atomic_type)
        name = tuple(tdef.name.canonical_name.object_path)
        is_prelude = not tdef.name.canonical_name.module_file
        if tdef.has_field("structure"):
            return self._aggregate(inst, field, ty, tdef, start, size, loc_ok)
        # scalar: prelude external or enum
        if isinstance(inst, ByteInst):
            if not self.is_const(field.location.size) and not ty.has_field("size_in_bits"):
                raise Unsupported("scalar of dynamic size")
            wbits = self.const(ty.size_in_bits) if ty.has_field("size_in_bits") else self.const(field.location.size) * 8
            nb = wbits // 8
            if wbits % 8:
                raise Unsupported("non-byte scalar in struct")
            # the field's bytes are present and its location is exactly as wide as its type
            present = z3.And(loc_ok, start + I(nb) <= inst.avail, size == I(nb))
            order = self.byte_order(field)
            bs = [self.root.byte(inst.start + start + I(k)) for k in range(nb)]
            if order == "BigEndian":
                msb = bs
            elif order in ("LittleEndian", "Null"):
                msb = list(reversed(bs))
            else:
                raise Unsupported("byte order %r" % order)
            bits = z3.Concat(*msb) if nb > 1 else bs[0]
            self._extent = (inst.start + start, nb)
        else:
            self._extent = getattr(inst, "extent", None)
            o, wbits = self.const(field.location.start), self.const(field.location.size)
            if ty.has_field("size_in_bits"):
                wbits = self.const(ty.size_in_bits)
            present = z3.And(loc_ok, I(o + wbits) <= I(inst.nbits))
            if o + wbits > inst.nbits:
                return Scalar(F, unknown("int"), present=F)
            bits = z3.Extract(inst.off + o + wbits - 1, inst.off + o, inst.V)
        r = self._decode(inst, field, tdef, name, is_prelude, bits, wbits, present)
        r.extent = self._extent
        return r

    def _decode(self, inst, field, tdef, name, is_prelude, bits, w, present):
        fmt_ok = T
        if tdef.has_field("enumeration"):
            signed = ir_util.get_boolean_attribute(tdef.attribute, "is_signed")
            if signed is None:
                signed = any(self.const(v.value) < 0 for v in tdef.enumeration.value)
            v = z3.SignExt(W - w, bits) if signed else z3.ZeroExt(W - w, bits)
            val = Val(T, v, "enum")
        elif is_prelude and name == ("UInt",):
            val = Val(T, z3.ZeroExt(W - w, bits), "int")
        elif is_prelude and name == ("Int",):
            val = Val(T, z3.SignExt(W - w, bits), "int")
        elif is_prelude and name == ("Flag",):
            val = Val(T, bits == z3.BitVecVal(1, 1), "bool")
        elif is_prelude and name == ("Bcd",):
            total = I(0)
            p = 1
            conds = []
            for i in range(0, w, 4):
                hi = min(i + 3, w - 1)
                nib = z3.Extract(hi, i, bits)
                if hi - i + 1 == 4:
                    conds.append(z3.ULE(nib, z3.BitVecVal(9, 4)))
                total = total + z3.ZeroExt(W - (hi - i + 1), nib) * I(p)
                p *= 10
            fmt_ok = z3.And(*conds) if conds else T
            val = Val(T, total, "int")
        elif is_prelude and name == ("Float",):
            val = Val(T, z3.ZeroExt(W - w, bits), "float")
        else:
            raise Unsupported("external type %s" % ".".join(name))
        ok = z3.And(present, fmt_ok)
        req = self.requires_of(field.attribute)
        if req is not None:
            sb = (tuple(field.name.canonical_name.object_path), Val(ok, val.v, val.kind))
            rv = self.eval(req, inst, sb)
            ok = z3.And(ok, rv.known, rv.v)
        return Scalar(ok, val, present=present, raw=bits)

    def _params_for(self, inst, ty, tdef):
        params = {}
        args = list(ty.atomic_type.runtime_parameter)
        for p, a in zip(tdef.runtime_parameter, args):
            params[p.name.name.text] = self.eval(a, inst)
        return params

    def _aggregate(self, inst, field, ty, tdef, start, size, loc_ok):
        params = self._params_for(inst, ty, tdef)
        # the accessor returns a null view unless every argument is known
        loc_ok = z3.And(loc_ok, *[v.known for v in params.values()])
        sub_is_bits = tdef.addressable_unit == ir_data.AddressableUnit.BIT
        if isinstance(inst, ByteInst):
            avail = z3.If(inst.avail < start, I(0), smin(size, inst.avail - start))
            if sub_is_bits:
                if not self.is_const(field.location.size):
                    raise Unsupported("bits field of dynamic size")
                nb = self.const(field.location.size)
                c = nb * 8
                order = self.byte_order(field)
                bs = [self.root.byte(inst.start + start + I(k)) for k in range(nb)]
                if order == "BigEndian":
                    msb = bs
                elif order in ("LittleEndian", "Null"):
                    msb = list(reversed(bs))
                else:
                    raise Unsupported("byte order %r" % order)
                V = z3.Concat(*msb) if nb > 1 else bs[0]
                ok = z3.And(loc_ok, start + I(nb) <= inst.avail)
                sub = BitInst(self, tdef, V, c, 0, c, ok, params)
                sub.extent = (inst.start + start, nb)
            else:
                sub = ByteInst(self, tdef, inst.start + start, z3.If(loc_ok, avail, I(0)), loc_ok, params)
        else:
            if not sub_is_bits:
                raise Unsupported("struct inside bits")
            o, wbits = self.const(field.location.start), self.const(field.location.size)
            ok = z3.And(loc_ok, z3.BoolVal(o + wbits <= inst.nbits))
            if o + wbits > inst.nbits:
                ok = F
                wbits = max(0, inst.nbits - o)
            sub = BitInst(self, tdef, inst.V, inst.cbits, inst.off + o, wbits, ok, params)
            sub.extent = getattr(inst, "extent", None)
        return Aggregate(sub, loc_ok)

    def elem_size_units(self, inst, base):
        """Static size of an array element in the units of `inst`."""
        if base.has_field("array_type"):
            raise Unsupported("multi-dimensional array")
        if base.has_field("size_in_bits"):
            bits = self.const(base.size_in_bits)
        else:
            tdef = self.type_def(base.atomic_type)
            if tdef.has_field("structure"):
                bits = self.fixed_size_bits(tdef)
            else:
                bits = ir_util.get_integer_attribute(tdef.attribute, "fixed_size_in_bits")
            if bits is None:
                raise Unsupported("array element without static size")
        if bits % inst.unit:
            raise Unsupported("array element not a whole number of units")
        return bits // inst.unit

    def _array(self, inst, field, ty, start, size, loc_ok):
        base = ty.array_type.base_type
        E = self.elem_size_units(inst, base)
        if base.has_field("atomic_type") and base.atomic_type.runtime_parameter:
            btd = self.type_def(base.atomic_type)
            loc_ok = z3.And(loc_ok, *[v.known for v in self._params_for(inst, base, btd).values()])
        if E == 0:
            raise Unsupported("zero-size array element")
        if isinstance(inst, ByteInst):
            clamped = z3.If(loc_ok, z3.If(inst.avail < start, I(0), smin(size, inst.avail - start)), I(0))
        else:
            if not (self.is_const(field.location.start) and self.is_const(field.location.size)):
                raise Unsupported("dynamic array location in bits")
            o, wbits = self.const(field.location.start), self.const(field.location.size)
            # inside `bits` the extent (hence the element count) of an array is static
            clamped = I(wbits)
            loc_ok = z3.And(loc_ok, z3.BoolVal(o + wbits <= inst.nbits))
            if o + wbits > inst.nbits:
                raise Unsupported("array beyond its bits container")
        count = z3.UDiv(clamped, I(E))
        self.assumptions.append(z3.ULE(count, I(self.max_array)))
        conds = [loc_ok, z3.URem(clamped, I(E)) == I(0)]
        elems = []

        class _F:  # a stand-in field for element i (attributes of the array field apply)
            pass

        for i in range(self.max_array):
            if isinstance(inst, ByteInst):
                est = start + I(i * E)
            else:
                est = I(self.const(field.location.start) + i * E)
            fake = _ElemField(field, i * E, E)
            r = self._typed_elem(inst, fake, base, est, I(E), loc_ok)
            elems.append(r)
            if isinstance(r, Scalar):
                eok = r.ok
            else:
                eok = z3.And(r.loc_ok, self.struct_ok(r.inst))
            conds.append(z3.Or(z3.ULE(count, I(i)), eok))
        return Array(elems, count, z3.And(*conds), T)

    def _typed_elem(self, inst, fake, base, est, esz, loc_ok):
        # elements are located by concrete/symbolic offsets supplied here, not
        # by the enclosing field's location expressions
        if isinstance(inst, BitInst):
            tdef = self.type_def(base.atomic_type)
            name = tuple(tdef.name.canonical_name.object_path)
            is_prelude = not tdef.name.canonical_name.module_file
            o = fake.offset + self.const(fake.field.location.start)
            w = fake.size
            if o + w > inst.nbits:
                return Scalar(F, unknown("int"), present=F)
            if tdef.has_field("structure"):
                params = self._params_for(inst, base, tdef)
                return Aggregate(BitInst(self, tdef, inst.V, inst.cbits, inst.off + o, w,
                                         z3.And(loc_ok, z3.BoolVal(o + w <= inst.nbits)), params), loc_ok)
            present = z3.And(loc_ok, z3.BoolVal(o + w <= inst.nbits))
            bits = z3.Extract(inst.off + o + w - 1, inst.off + o, inst.V)
            return self._decode(inst, fake, tdef, name, is_prelude, bits, w, present)
        return self._typed(inst, fake, base, est, esz, loc_ok)

    # ------------------------------------------------------------------
    # structure observables
    # ------------------------------------------------------------------
    def physical_fields(self, inst):
        return [f for f in inst.tdef.structure.field if not ir_util.field_is_virtual(f)]

    def user_fields(self, inst):
        return [f for f in inst.tdef.structure.field if not f.name.name.text.startswith("$")]

    def size(self, inst):
        """Val: the structure's intrinsic size in its own units."""
        if "size" in inst._cache:
            return inst._cache["size"]
        known = T
        m = I(0)
        for f in self.physical_fields(inst):
            ex = self.exists(inst, f)
            s = self.eval(f.location.start, inst)
            z = self.eval(f.location.size, inst)
            known = z3.And(known, ex.known, z3.Or(z3.Not(ex.v), z3.And(s.known, z.known)))
            m = smax(m, z3.If(ex.v, s.v + z.v, I(0)))
        r = Val(known, m, "int")
        inst._cache["size_from_fields"] = r
        if self.fold_constants:
            # a size the front end proved constant is a C++ constant (see eval)
            for f in inst.tdef.structure.field:
                if f.name.name.text in ("$size_in_bytes", "$size_in_bits"):
                    t = f.read_transform.type
                    if t.integer.modulus == "infinity":
                        r = Val(T, I(int(t.integer.modular_value)), "int")
        inst._cache["size"] = r
        return r

    def is_complete(self, inst):
        sz = self.size(inst)
        avail = inst.avail if isinstance(inst, ByteInst) else I(inst.nbits)
        return z3.And(inst.backing_ok, sz.known, avail >= sz.v)

    def field_ok(self, inst, field):
        r = self.field(inst, field)
        if isinstance(r, Scalar):
            return r.ok
        if isinstance(r, Aggregate):
            return z3.And(r.loc_ok, self.struct_ok(r.inst))
        if isinstance(r, Array):
            return r.ok
        raise Unsupported("field kind")

    def params_ok(self, inst):
        """A view whose parameters are not all known is not initialised."""
        ks = [v.known for v in inst.params.values()]
        return z3.And(*ks) if ks else T

    def struct_ok(self, inst):
        if "ok" in inst._cache:
            return inst._cache["ok"]
        conds = [self.is_complete(inst), self.params_ok(inst)]
        for f in self.user_fields(inst):
            ex = self.exists(inst, f)
            conds.append(ex.known)
            conds.append(z3.Or(z3.Not(ex.v), self.field_ok(inst, f)))
        req = self.requires_of(inst.tdef.attribute)
        if req is not None:
            rv = self.eval(req, inst)
            conds.append(z3.And(rv.known, rv.v))
        r = z3.And(*conds)
        inst._cache["ok"] = r
        return r


def equals_ref(ca, ia, cb, ib, depth=0):
    """Reference Equals of two instances of the same type (DESIGN.md A.2):
    both agree on the presence of every physical field (and parameter) and
    every present physical field reads equal, recursively."""
    if depth > 8:
        raise Unsupported("Equals recursion too deep")
    conds = []
    for name in ia.params:
        pa, pb = ia.params[name], ib.params[name]
        conds.append(z3.And(pa.known, pb.known, pa.v == pb.v))
    for f in ca.physical_fields(ia):
        ea, eb = ca.exists(ia, f), cb.exists(ib, f)
        conds.append(z3.And(ea.known, eb.known, ea.v == eb.v))
        ra, rb = ca.field(ia, f), cb.field(ib, f)
        conds.append(z3.Or(z3.Not(ea.v), _field_equal(ca, ra, cb, rb, depth)))
    return z3.And(*conds) if conds else T


def _field_equal(ca, ra, cb, rb, depth):
    if isinstance(ra, Scalar):
        if ra.val.kind == "float":
            raise Unsupported("floating-point equality")
        return ra.val.v == rb.val.v
    if isinstance(ra, Aggregate):
        return equals_ref(ca, ra.inst, cb, rb.inst, depth + 1)
    if isinstance(ra, Array):
        conds = [ra.count == rb.count]
        for i, (ea, eb) in enumerate(zip(ra.elems, rb.elems)):
            conds.append(z3.Or(z3.ULE(ra.count, I(i)), _field_equal(ca, ea, cb, eb, depth)))
        return z3.And(*conds)
    raise Unsupported("field kind in Equals")
