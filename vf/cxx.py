"""E2 helpers: clang -> LLVM IR, symbolic buffers, obligation checking, native replay."""

import os
import subprocess
import time

import z3

from vf import common
from vf import ll2smt

CLANG = os.environ.get("VERIF_CLANGXX", "clang++")

O2_FLAGS = ["-std=c++14", "-O2", "-mllvm", "-inline-threshold=100000", "-fno-exceptions", "-fno-rtti",
            "-fno-vectorize", "-fno-slp-vectorize", "-fno-unroll-loops", "-S", "-emit-llvm", "-Wno-everything"]
# the sanitizer-trap build: undefined behaviour becomes explicit llvm.ubsantrap sites
TRAP_FLAGS = ["-std=c++14", "-O1", "-mllvm", "-inline-threshold=100000", "-fno-exceptions", "-fno-rtti",
              "-fno-vectorize", "-fno-slp-vectorize", "-fno-unroll-loops", "-fsanitize=undefined,bounds",
              "-fno-sanitize=vptr,function", "-fsanitize-trap=all", "-S", "-emit-llvm", "-Wno-everything"]


class CompileError(Exception):
    pass


def compile_ir(src_path, out_path, flags=None, includes=()):
    cmd = [CLANG] + list(flags or O2_FLAGS) + ["-I" + common.REPO]
    for inc in includes:
        cmd.append("-I" + inc)
    cmd += [src_path, "-o", out_path]
    p = subprocess.run(cmd, capture_output=True, text=True)
    if p.returncode != 0:
        raise CompileError("clang failed on %s:\n%s" % (src_path, p.stderr[-3000:]))
    with open(out_path) as f:
        return f.read()


def compile_native(src_path, exe_path, includes=(), sanitize=True, opt="-O1"):
    cmd = [CLANG, "-std=c++14", opt, "-g", "-fno-omit-frame-pointer", "-Wno-everything", "-I" + common.REPO]
    if sanitize:
        cmd += ["-fsanitize=address,undefined", "-fno-sanitize-recover=all"]
    for inc in includes:
        cmd.append("-I" + inc)
    cmd += [src_path, "-o", exe_path]
    p = subprocess.run(cmd, capture_output=True, text=True)
    if p.returncode != 0:
        raise CompileError("native clang failed on %s:\n%s" % (src_path, p.stderr[-3000:]))


# ----------------------------------------------------------------------
# Symbolic buffers
# ----------------------------------------------------------------------


class SymBuf:
    """A backing buffer: base address B (64-bit), length n, in a shared memory."""

    def __init__(self, name, nmax, align=1, align_off=0, writable=True):
        self.name = name
        self.B = z3.BitVec(name + "_base", 64)
        self.n = z3.BitVec(name + "_len", 64)
        self.nmax = nmax
        self.region = ll2smt.Region(name, self.B, self.n, writable=writable)
        self.pre = [
            z3.ULE(self.n, z3.BitVecVal(nmax, 64)),
            z3.UGE(self.B, z3.BitVecVal(0x10000, 64)),
            z3.ULE(self.B, z3.BitVecVal(0x0000_4000_0000_0000, 64)),
        ]
        if align > 1:
            self.pre.append(z3.URem(self.B, z3.BitVecVal(align, 64)) == z3.BitVecVal(align_off, 64))

    def byte(self, mem, i):
        if not z3.is_bv(i):
            i = z3.BitVecVal(i, 64)
        return z3.Select(mem, self.B + i)

    def bytes_from_model(self, model, mem, count=None):
        n = model.eval(self.n, model_completion=True).as_long()
        count = n if count is None else count
        out = []
        for i in range(count):
            out.append(model.eval(self.byte(mem, i), model_completion=True).as_long())
        return n, out


def fresh_memory(name="mem"):
    return z3.Array(name, ll2smt.BV64, ll2smt.BV8)


class Checker:
    """Counts and discharges solver queries with a shared precondition."""

    def __init__(self, timeout_ms=60000):
        self.timeout_ms = timeout_ms
        self.queries = 0
        self.unsat = 0
        self.sat = 0
        self.unknown = 0
        self.solver_s = 0.0

    def check(self, *assertions):
        s = z3.Solver()
        s.set("timeout", self.timeout_ms)
        for a in assertions:
            if isinstance(a, (list, tuple)):
                s.add(*a)
            else:
                s.add(a)
        t0 = time.time()
        r = str(s.check())
        self.solver_s += time.time() - t0
        self.queries += 1
        if r == "sat":
            self.sat += 1
            return r, s.model()
        if r == "unsat":
            self.unsat += 1
        else:
            self.unknown += 1
        return r, None

    def stats(self):
        return {"queries": self.queries, "unsat": self.unsat, "sat": self.sat, "unknown": self.unknown,
                "solver_s": round(self.solver_s, 2)}


def run_native(exe, stdin_text, timeout=60):
    p = subprocess.run([exe], input=stdin_text, capture_output=True, text=True, timeout=timeout)
    return p.returncode, p.stdout, p.stderr
