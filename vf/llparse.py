"""Textual LLVM IR (LLVM 14, typed pointers) -> Python structures.

Only the subset clang 14 emits for the fully inlined runtime/generated-header
drivers is understood; anything else raises NotEncoded, which callers report
as `not_encoded` (never as passed).
"""

import re


class NotEncoded(Exception):
    pass


# ----------------------------------------------------------------------
# Types
# ----------------------------------------------------------------------


class Ty:
    pass


class IntTy(Ty):
    def __init__(self, bits):
        self.bits = bits

    def __repr__(self):
        return "i%d" % self.bits


class PtrTy(Ty):
    def __init__(self, to):
        self.to = to
        self.bits = 64

    def __repr__(self):
        return "%r*" % (self.to,)


class FloatTy(Ty):
    def __init__(self, bits):
        self.bits = bits

    def __repr__(self):
        return "f%d" % self.bits


class VoidTy(Ty):
    bits = 0

    def __repr__(self):
        return "void"


class ArrayTy(Ty):
    def __init__(self, n, elem):
        self.n, self.elem = n, elem

    def __repr__(self):
        return "[%d x %r]" % (self.n, self.elem)


class StructTy(Ty):
    def __init__(self, fields, packed=False, name=None):
        self.fields, self.packed, self.name = fields, packed, name

    def __repr__(self):
        return "{%s}" % ", ".join(map(repr, self.fields or []))


class FuncTy(Ty):
    bits = 0

    def __repr__(self):
        return "fn"


class LabelTy(Ty):
    pass


def size_align(t):
    """(size in bytes, ABI alignment) under the x86-64 data layout."""
    if isinstance(t, IntTy):
        s = 1
        while s * 8 < t.bits:
            s *= 2
        return s, min(s, 8) if t.bits <= 64 else 16
    if isinstance(t, PtrTy):
        return 8, 8
    if isinstance(t, FloatTy):
        return t.bits // 8, t.bits // 8
    if isinstance(t, ArrayTy):
        s, a = size_align(t.elem)
        return s * t.n, a
    if isinstance(t, StructTy):
        if t.fields is None:
            raise NotEncoded("opaque struct %s" % t.name)
        off, al = 0, 1
        for f in t.fields:
            s, a = size_align(f)
            if t.packed:
                a = 1
            off = (off + a - 1) // a * a
            off += s
            al = max(al, a)
        return (off + al - 1) // al * al, al
    raise NotEncoded("size of %r" % (t,))


def struct_offset(t, idx):
    off = 0
    for i, f in enumerate(t.fields):
        s, a = size_align(f)
        if t.packed:
            a = 1
        off = (off + a - 1) // a * a
        if i == idx:
            return off
        off += s
    raise NotEncoded("struct index")


# ----------------------------------------------------------------------
# Tokenizer
# ----------------------------------------------------------------------

_TOK = re.compile(
    r"""\s*(?:
      (?P<str>c?"(?:[^"\\]|\\.)*")
    | (?P<local>%[-a-zA-Z$._0-9]+|%"[^"]*")
    | (?P<global>@[-a-zA-Z$._0-9]+|@"[^"]*")
    | (?P<meta>![-a-zA-Z$._0-9]*)
    | (?P<attr>\#\d+)
    | (?P<num>-?\d+(?:\.\d+(?:e[+-]?\d+)?)?|0x[0-9A-Fa-f]+)
    | (?P<word>[a-zA-Z_][a-zA-Z_0-9.]*)
    | (?P<punct>\.\.\.|[()\[\]{}<>,=*:])
    )""",
    re.X,
)


def tokenize(line):
    out = []
    pos = 0
    n = len(line)
    while pos < n:
        m = _TOK.match(line, pos)
        if not m:
            if line[pos:].strip() == "":
                break
            raise NotEncoded("cannot tokenize: %r" % line[pos : pos + 40])
        pos = m.end()
        kind = m.lastgroup
        out.append((kind, m.group(kind)))
    return out


class Toks:
    def __init__(self, toks):
        self.t = toks
        self.i = 0

    def peek(self, k=0):
        j = self.i + k
        return self.t[j] if j < len(self.t) else (None, None)

    def next(self):
        tok = self.peek()
        self.i += 1
        return tok

    def accept(self, val):
        if self.peek()[1] == val:
            self.i += 1
            return True
        return False

    def expect(self, val):
        tok = self.next()
        if tok[1] != val:
            raise NotEncoded("expected %r, got %r" % (val, tok))

    def done(self):
        return self.i >= len(self.t)


# ----------------------------------------------------------------------
# Values
# ----------------------------------------------------------------------


class Const:
    def __init__(self, ty, value):
        self.ty, self.value = ty, value  # value: int | None(undef)

    def __repr__(self):
        return "%r %r" % (self.ty, self.value)


class Local:
    def __init__(self, ty, name):
        self.ty, self.name = ty, name

    def __repr__(self):
        return "%r %s" % (self.ty, self.name)


class GlobalRef:
    def __init__(self, ty, name):
        self.ty, self.name = ty, name

    def __repr__(self):
        return "@%s" % self.name


class ConstExpr:
    def __init__(self, ty, op, args, extra=None):
        self.ty, self.op, self.args, self.extra = ty, op, args, extra

    def __repr__(self):
        return "cexpr(%s)" % self.op


class Undef:
    def __init__(self, ty):
        self.ty = ty


class Aggregate:
    def __init__(self, ty, elems):
        self.ty, self.elems = ty, elems


class BytesConst:
    def __init__(self, ty, data):
        self.ty, self.data = ty, data


PARAM_ATTRS = {
    "noundef", "nonnull", "zeroext", "signext", "nocapture", "readonly", "readnone", "writeonly",
    "noalias", "returned", "immarg", "inreg", "nofree", "nest", "swiftself", "inalloca",
}
FAST_FLAGS = {"nuw", "nsw", "exact", "inbounds", "fast", "nnan", "ninf", "nsz", "arcp", "contract",
              "afn", "reassoc", "volatile", "atomic", "tail", "musttail", "notail"}


class Parser:
    def __init__(self, module):
        self.m = module

    # -- types ----------------------------------------------------------
    def ty(self, T):
        k, v = T.next()
        if k == "word":
            if re.fullmatch(r"i\d+", v):
                t = IntTy(int(v[1:]))
            elif v == "void":
                t = VoidTy()
            elif v == "float":
                t = FloatTy(32)
            elif v == "double":
                t = FloatTy(64)
            elif v == "label":
                t = LabelTy()
            elif v == "ptr":
                t = PtrTy(IntTy(8))
            elif v == "opaque":
                t = StructTy(None)
            elif v == "metadata":
                t = VoidTy()
            else:
                raise NotEncoded("type %r" % v)
        elif k == "local":
            name = v[1:].strip('"')
            t = self.m.named_types.get(name)
            if t is None:
                t = StructTy(None, name=name)
                self.m.named_types[name] = t
        elif v == "[":
            n = int(T.next()[1])
            T.expect("x")
            e = self.ty(T)
            T.expect("]")
            t = ArrayTy(n, e)
        elif v == "{":
            t = StructTy(self._tylist(T, "}"))
        elif v == "<":
            if T.peek()[1] == "{":
                T.next()
                t = StructTy(self._tylist(T, "}"), packed=True)
                T.expect(">")
            else:
                raise NotEncoded("vector type")
        else:
            raise NotEncoded("type token %r" % v)
        while True:
            if T.accept("*"):
                t = PtrTy(t)
            elif T.peek()[1] == "(" and not isinstance(t, LabelTy):
                # function type
                depth = 0
                while True:
                    kk, vv = T.next()
                    if vv == "(":
                        depth += 1
                    elif vv == ")":
                        depth -= 1
                        if depth == 0:
                            break
                t = FuncTy()
            else:
                break
        return t

    def _tylist(self, T, close):
        out = []
        if T.accept(close):
            return out
        while True:
            out.append(self.ty(T))
            if T.accept(close):
                return out
            T.expect(",")

    # -- values ---------------------------------------------------------
    def skip_attrs(self, T):
        while True:
            k, v = T.peek()
            if k == "word" and v in PARAM_ATTRS:
                T.next()
            elif k == "word" and v in ("align", "dereferenceable", "dereferenceable_or_null", "byval", "sret", "elementtype"):
                T.next()
                if T.accept("("):
                    depth = 1
                    while depth:
                        vv = T.next()[1]
                        depth += vv == "("
                        depth -= vv == ")"
                else:
                    T.next()
            else:
                return

    def value(self, T, ty):
        k, v = T.next()
        if k == "local":
            return Local(ty, v[1:].strip('"'))
        if k == "global":
            return GlobalRef(ty, v[1:].strip('"'))
        if k == "num":
            if isinstance(ty, FloatTy):
                raise NotEncoded("float constant")
            return Const(ty, int(v, 0))
        if k == "str":
            return BytesConst(ty, _unescape(v[2:-1] if v.startswith("c") else v[1:-1]))
        if k == "word":
            if v == "true":
                return Const(ty, 1)
            if v == "false":
                return Const(ty, 0)
            if v == "null":
                return Const(ty, 0)
            if v in ("undef", "poison"):
                return Undef(ty)
            if v == "zeroinitializer":
                return Const(ty, 0)
            if v in ("getelementptr", "bitcast", "ptrtoint", "inttoptr", "trunc", "zext", "sext",
                     "add", "sub", "and", "or", "xor", "shl", "lshr", "mul", "select", "icmp"):
                return self.constexpr(T, v, ty)
            raise NotEncoded("value word %r" % v)
        if v == "[" or v == "{" or v == "<":
            close = {"[": "]", "{": "}", "<": ">"}[v]
            packed = False
            if v == "<" and T.peek()[1] == "{":
                T.next()
                packed = True
                close = "}"
            elems = []
            if not T.accept(close):
                while True:
                    et = self.ty(T)
                    elems.append(self.value(T, et))
                    if T.accept(close):
                        break
                    T.expect(",")
            if packed:
                T.expect(">")
            return Aggregate(ty, elems)
        raise NotEncoded("value %r" % v)

    def constexpr(self, T, op, ty):
        while T.peek()[1] in FAST_FLAGS:
            T.next()
        T.expect("(")
        if op == "getelementptr":
            base_ty = self.ty(T)
            T.expect(",")
            args = []
            while True:
                at = self.ty(T)
                args.append(self.value(T, at))
                if T.accept(")"):
                    break
                T.expect(",")
            return ConstExpr(ty, op, args, extra=base_ty)
        if op in ("bitcast", "ptrtoint", "inttoptr", "trunc", "zext", "sext"):
            st = self.ty(T)
            v = self.value(T, st)
            T.expect("to")
            dt = self.ty(T)
            T.expect(")")
            return ConstExpr(dt, op, [v])
        if op == "icmp":
            pred = T.next()[1]
            at = self.ty(T)
            a = self.value(T, at)
            T.expect(",")
            bt = self.ty(T)
            b = self.value(T, bt)
            T.expect(")")
            return ConstExpr(IntTy(1), op, [a, b], extra=pred)
        args = []
        while True:
            at = self.ty(T)
            args.append(self.value(T, at))
            if T.accept(")"):
                break
            T.expect(",")
        return ConstExpr(args[-1].ty, op, args)

    def typed_value(self, T):
        t = self.ty(T)
        self.skip_attrs(T)
        return self.value(T, t)


def _unescape(s):
    out = bytearray()
    i = 0
    while i < len(s):
        c = s[i]
        if c == "\\":
            if s[i + 1] == "\\":
                out.append(92)
                i += 2
            else:
                out.append(int(s[i + 1 : i + 3], 16))
                i += 3
        else:
            out.append(ord(c))
            i += 1
    return bytes(out)


# ----------------------------------------------------------------------
# Module structure
# ----------------------------------------------------------------------


class Instr:
    __slots__ = ("res", "op", "ty", "args", "extra", "flags", "line")

    def __init__(self, res, op, ty=None, args=None, extra=None, flags=(), line=""):
        self.res, self.op, self.ty, self.args, self.extra, self.flags, self.line = (
            res, op, ty, args or [], extra, flags, line)

    def __repr__(self):
        return self.line.strip()


class Block:
    def __init__(self, name):
        self.name = name
        self.instrs = []

    @property
    def term(self):
        return self.instrs[-1]


class Function:
    def __init__(self, name, ret_ty, params):
        self.name, self.ret_ty, self.params = name, ret_ty, params
        self.blocks = {}
        self.order = []

    def succs(self, bname):
        t = self.blocks[bname].term
        if t.op == "br":
            return list(t.extra)
        if t.op == "switch":
            return [t.extra[0]] + [l for _, l in t.extra[1]]
        return []

    @property
    def ninstr(self):
        return sum(len(b.instrs) for b in self.blocks.values())


class Global:
    def __init__(self, name, ty, init, constant, align):
        self.name, self.ty, self.init, self.constant, self.align = name, ty, init, constant, align


class Module:
    def __init__(self):
        self.named_types = {}
        self.globals = {}
        self.functions = {}
        self.declared = set()


_META_TAIL = re.compile(r"(?:,\s*![a-zA-Z_.0-9]+\s+!(?:\d+|\{[^}]*\}|DIExpression\(\)))+\s*$")
_ATTR_TAIL = re.compile(r"\s+#\d+\s*$")


def _strip_tail(line):
    line = line.split(" ; ")[0] if " ; " in line and '"' not in line else line
    if ";" in line and '"' not in line:
        line = line.split(";")[0]
    while True:
        new = _META_TAIL.sub("", line)
        new = _ATTR_TAIL.sub("", new)
        if new == line:
            return line.rstrip()
        line = new


def parse_module(text):
    m = Module()
    P = Parser(m)
    lines = text.split("\n")
    i = 0
    cur = None
    block = None
    while i < len(lines):
        raw = lines[i]
        i += 1
        line = raw.strip()
        if not line or line.startswith(";"):
            continue
        if cur is None:
            if line.startswith("%") and " = type " in line:
                name, rest = line.split(" = type ", 1)
                name = name[1:].strip('"')
                T = Toks(tokenize(rest))
                t = P.ty(T)
                prev = m.named_types.get(name)
                if prev is not None and isinstance(t, StructTy):
                    prev.fields, prev.packed = t.fields, t.packed
                else:
                    if isinstance(t, StructTy):
                        t.name = name
                    m.named_types[name] = t
            elif line.startswith("@"):
                _parse_global(P, m, line)
            elif line.startswith("define "):
                cur = _parse_define(P, m, line)
                block = None
            elif line.startswith("declare "):
                mm = re.search(r"@([-a-zA-Z$._0-9]+|\"[^\"]*\")\s*\(", line)
                if mm:
                    m.declared.add(mm.group(1).strip('"'))
            continue
        # inside a function
        if line == "}":
            m.functions[cur.name] = cur
            cur = None
            continue
        lm = re.match(r'^([-a-zA-Z$._0-9]+|"[^"]*"):', line)
        if lm:
            block = Block(lm.group(1).strip('"'))
            cur.blocks[block.name] = block
            cur.order.append(block.name)
            continue
        if block is None:
            # implicit entry block: numbered after the parameters
            block = Block(str(cur._next_unnamed))
            cur.blocks[block.name] = block
            cur.order.append(block.name)
        if line.startswith("switch "):
            # multi-line switch
            while "]" not in line:
                line += " " + lines[i].strip()
                i += 1
        try:
            ins = _parse_instr(P, _strip_tail(line))
        except NotEncoded as e:
            ins = Instr(None, "unsupported", extra=str(e), line=line)
        except (ValueError, IndexError, KeyError, TypeError) as e:
            ins = Instr(None, "unsupported", extra="parse error %s" % e, line=line)
        ins.line = line
        block.instrs.append(ins)
    return m


def _parse_global(P, m, line):
    name, rest = line.split(" = ", 1)
    name = name[1:].strip('"')
    T = Toks(tokenize(_strip_tail(rest)))
    constant = False
    while True:
        k, v = T.peek()
        if v in ("private", "internal", "external", "linkonce_odr", "weak_odr", "dso_local", "unnamed_addr",
                 "local_unnamed_addr", "hidden", "available_externally", "linkonce", "weak", "common", "thread_local"):
            T.next()
        elif v == "global":
            T.next()
            break
        elif v == "constant":
            T.next()
            constant = True
            break
        elif v == "alias" or v == "ifunc":
            return
        else:
            T.next()
    try:
        ty = P.ty(T)
        init = None
        k, v = T.peek()
        if k is not None and v != ",":
            init = P.value(T, ty)
        align = 1
        while not T.done():
            if T.next()[1] == "align":
                align = int(T.next()[1])
        m.globals[name] = Global(name, ty, init, constant, align)
    except NotEncoded:
        m.globals[name] = Global(name, None, None, constant, 1)


def _parse_define(P, m, line):
    mm = re.search(r"@([-a-zA-Z$._0-9]+|\"[^\"]*\")\s*\(", line)
    name = mm.group(1).strip('"')
    head = line[len("define "):mm.start()]
    T = Toks(tokenize(head))
    ret_ty = None
    while not T.done():
        k, v = T.peek()
        if k == "word" and (v in PARAM_ATTRS or v in ("dso_local", "internal", "linkonce_odr", "weak_odr", "hidden",
                                                       "private", "available_externally", "fastcc", "noundef", "weak")):
            T.next()
            continue
        ret_ty = P.ty(T)
        break
    # parameters: balanced parens after the name
    j = mm.end()
    depth = 1
    k = j
    while depth:
        c = line[k]
        depth += c == "("
        depth -= c == ")"
        k += 1
    ptxt = line[j : k - 1]
    params = []
    T = Toks(tokenize(ptxt))
    unnamed = 0
    while not T.done():
        if T.peek()[1] == "...":
            raise NotEncoded("varargs")
        t = P.ty(T)
        P.skip_attrs(T)
        kk, vv = T.peek()
        if kk == "local":
            T.next()
            pname = vv[1:].strip('"')
        else:
            pname = str(unnamed)
        if re.fullmatch(r"\d+", pname):
            unnamed = int(pname) + 1
        params.append(Local(t, pname))
        T.accept(",")
    f = Function(name, ret_ty, params)
    f._next_unnamed = unnamed
    return f


BINOPS = {"add", "sub", "mul", "and", "or", "xor", "shl", "lshr", "ashr", "udiv", "sdiv", "urem", "srem"}
CASTS = {"zext", "sext", "trunc", "bitcast", "ptrtoint", "inttoptr", "addrspacecast"}


def _parse_instr(P, line):
    res = None
    mm = re.match(r'^(%[-a-zA-Z$._0-9]+|%"[^"]*")\s*=\s*', line)
    if mm:
        res = mm.group(1)[1:].strip('"')
        line = line[mm.end():]
    T = Toks(tokenize(line))
    k, op = T.next()
    while op in ("tail", "musttail", "notail"):
        k, op = T.next()
    flags = []
    while T.peek()[1] in FAST_FLAGS:
        flags.append(T.next()[1])
    if op in BINOPS:
        ty = P.ty(T)
        a = P.value(T, ty)
        T.expect(",")
        b = P.value(T, ty)
        return Instr(res, op, ty, [a, b], flags=tuple(flags))
    if op == "icmp":
        pred = T.next()[1]
        ty = P.ty(T)
        a = P.value(T, ty)
        T.expect(",")
        b = P.value(T, ty)
        return Instr(res, op, IntTy(1), [a, b], extra=pred)
    if op in CASTS:
        a = P.typed_value(T)
        T.expect("to")
        dt = P.ty(T)
        return Instr(res, op, dt, [a])
    if op == "select":
        c = P.typed_value(T)
        T.expect(",")
        a = P.typed_value(T)
        T.expect(",")
        b = P.typed_value(T)
        return Instr(res, op, a.ty, [c, a, b])
    if op == "freeze":
        a = P.typed_value(T)
        return Instr(res, op, a.ty, [a])
    if op == "phi":
        ty = P.ty(T)
        inc = []
        while True:
            T.expect("[")
            v = P.value(T, ty)
            T.expect(",")
            lbl = T.next()[1][1:].strip('"')
            T.expect("]")
            inc.append((v, lbl))
            if not T.accept(","):
                break
        return Instr(res, op, ty, [], extra=inc)
    if op == "br":
        if T.peek()[1] == "label":
            T.next()
            return Instr(None, op, None, [], extra=[T.next()[1][1:].strip('"')])
        c = P.typed_value(T)
        T.expect(",")
        T.expect("label")
        a = T.next()[1][1:].strip('"')
        T.expect(",")
        T.expect("label")
        b = T.next()[1][1:].strip('"')
        return Instr(None, op, None, [c], extra=[a, b])
    if op == "switch":
        c = P.typed_value(T)
        T.expect(",")
        T.expect("label")
        dflt = T.next()[1][1:].strip('"')
        T.expect("[")
        cases = []
        while not T.accept("]"):
            cv = P.typed_value(T)
            T.expect(",")
            T.expect("label")
            cases.append((cv.value, T.next()[1][1:].strip('"')))
        return Instr(None, op, None, [c], extra=(dflt, cases))
    if op == "ret":
        if T.peek()[1] == "void":
            return Instr(None, op, VoidTy(), [])
        v = P.typed_value(T)
        return Instr(None, op, v.ty, [v])
    if op == "unreachable":
        return Instr(None, op)
    if op == "load":
        ty = P.ty(T)
        T.expect(",")
        p = P.typed_value(T)
        align = 1
        if T.accept(","):
            if T.accept("align"):
                align = int(T.next()[1])
        return Instr(res, op, ty, [p], extra=align, flags=tuple(flags))
    if op == "store":
        v = P.typed_value(T)
        T.expect(",")
        p = P.typed_value(T)
        align = 1
        if T.accept(","):
            if T.accept("align"):
                align = int(T.next()[1])
        return Instr(None, op, v.ty, [v, p], extra=align, flags=tuple(flags))
    if op == "getelementptr":
        base_ty = P.ty(T)
        T.expect(",")
        args = []
        while True:
            args.append(P.typed_value(T))
            if not T.accept(","):
                break
        return Instr(res, op, PtrTy(IntTy(8)), args, extra=base_ty, flags=tuple(flags))
    if op == "alloca":
        ty = P.ty(T)
        n = None
        align = 1
        while T.accept(","):
            if T.accept("align"):
                align = int(T.next()[1])
            else:
                n = P.typed_value(T)
        return Instr(res, op, PtrTy(ty), [n] if n is not None else [], extra=(ty, align))
    if op == "extractvalue":
        a = P.typed_value(T)
        idx = []
        while T.accept(","):
            idx.append(int(T.next()[1]))
        return Instr(res, op, None, [a], extra=idx)
    if op == "insertvalue":
        a = P.typed_value(T)
        T.expect(",")
        b = P.typed_value(T)
        idx = []
        while T.accept(","):
            idx.append(int(T.next()[1]))
        return Instr(res, op, a.ty, [a, b], extra=idx)
    if op == "call":
        # [cconv] [ret attrs] <ty> [<fnty>] <fn>(args)
        while T.peek()[0] == "word" and (T.peek()[1] in PARAM_ATTRS or T.peek()[1] in ("fastcc", "ccc", "coldcc")):
            T.next()
        rty = P.ty(T)
        k2, callee = T.next()
        if k2 != "global":
            raise NotEncoded("indirect call")
        callee = callee[1:].strip('"')
        T.expect("(")
        args = []
        if not T.accept(")"):
            while True:
                at = P.ty(T)
                P.skip_attrs(T)
                if isinstance(at, VoidTy):  # metadata argument
                    T.next()
                    args.append(None)
                else:
                    args.append(P.value(T, at))
                if T.accept(")"):
                    break
                T.expect(",")
        return Instr(res, op, rty, args, extra=callee)
    if op in ("fadd", "fsub", "fmul", "fdiv", "frem", "fcmp", "fneg", "fpext", "fptrunc", "fptoui", "fptosi",
              "uitofp", "sitofp"):
        raise NotEncoded("floating-point instruction %s" % op)
    raise NotEncoded("instruction %s" % op)
