"""Structure-level drivers: extern "C" entry points over the header the current
compiler generates for a module (used by C01, C04 structure level, C20)."""

import os

from vf import common
from compiler.back_end.cpp import header_generator
from compiler.util import ir_data, ir_util


def cpp_ns(module):
    return "::" + "::".join(header_generator._get_module_namespace(module))


def cpp_type_name(tdef, ir):
    cn = tdef.name.canonical_name
    module = ir_util.find_object((cn.module_file,), ir)
    return cpp_ns(module) + "::" + "::".join(cn.object_path)


def maker_name(tdef, ir):
    cn = tdef.name.canonical_name
    module = ir_util.find_object((cn.module_file,), ir)
    path = list(cn.object_path)
    return cpp_ns(module) + "::" + "::".join(path[:-1] + ["Make%sView" % path[-1]])


def all_structs(module):
    """Every struct (byte-oriented) type definition of the module, nested ones included."""
    out = []

    def walk(t):
        if t.has_field("structure") and t.addressable_unit == ir_data.AddressableUnit.BYTE:
            out.append(t)
        for s in t.subtype:
            walk(s)

    for t in module.type:
        walk(t)
    return out


def all_enums(module):
    out = []

    def walk(t):
        if t.has_field("enumeration"):
            out.append(t)
        for s in t.subtype:
            walk(s)

    for t in module.type:
        walk(t)
    return out


def ident(s):
    return "".join(ch if ch.isalnum() else "_" for ch in s)


class Entry:
    """One extern "C" function of the driver."""

    def __init__(self, fn, struct, kind, path=(), ret="u64", extra=None):
        self.fn, self.struct, self.kind, self.path, self.ret, self.extra = fn, struct, kind, tuple(path), ret, extra


SCALAR_PRELUDE = {("UInt",), ("Int",), ("Bcd",), ("Flag",), ("Float",)}


def field_kind(field, ir):
    """'scalar:<T>' | 'enum' | 'bits' | 'struct' | 'array' | 'virtual:<type>'"""
    if ir_util.field_is_virtual(field):
        return "virtual:" + str(field.read_transform.type.which_type)
    ty = field.type
    if ty.has_field("array_type"):
        return "array"
    tdef = ir_util.find_object(ty.atomic_type.reference.canonical_name, ir)
    cn = tdef.name.canonical_name
    if not cn.module_file and tuple(cn.object_path) in SCALAR_PRELUDE:
        return "scalar:" + cn.object_path[0]
    if tdef.has_field("enumeration"):
        return "enum"
    if tdef.has_field("structure"):
        return "bits" if tdef.addressable_unit == ir_data.AddressableUnit.BIT else "struct"
    return "external"


def cpp_member(name):
    """C++ accessor name of a field (synthesized $-fields are renamed)."""
    special = {
        "$size_in_bytes": "IntrinsicSizeInBytes", "$size_in_bits": "IntrinsicSizeInBits",
        "$max_size_in_bytes": "MaxSizeInBytes", "$max_size_in_bits": "MaxSizeInBits",
        "$min_size_in_bytes": "MinSizeInBytes", "$min_size_in_bits": "MinSizeInBits",
    }
    return special.get(name, name)


def gen_driver(ir, header_name, writable=False, max_bits_depth=3, max_elems=2, align=1):
    """Returns (source text, [Entry]) for the main module of `ir`."""
    module = ir.module[0]
    lines = ['#include <cstdint>', '#include <cstddef>', '#include <cstring>', '#include "%s"' % header_name, ""]
    entries = []
    byte = "unsigned char" if writable else "const unsigned char"
    for tdef in all_structs(module):
        sname = ".".join(tdef.name.canonical_name.object_path)
        sid = ident(sname)
        plist, pargs = [], []
        for p in tdef.runtime_parameter:
            pn = p.name.name.text
            if p.type.which_type == "integer":
                plist.append("int64_t p_%s" % pn)
                pargs.append("p_%s" % pn)
            elif p.type.which_type == "enumeration":
                et = ir_util.find_object(p.type.enumeration.name.canonical_name, ir)
                plist.append("int64_t p_%s" % pn)
                pargs.append("static_cast<%s>(p_%s)" % (cpp_type_name(et, ir), pn))
            else:
                plist = None
                break
        if plist is None:
            continue
        sig = ", ".join(["%s* p" % byte, "size_t n"] + plist)
        mk = "%s(%s)" % (maker_name(tdef, ir), ", ".join(pargs + ["p", "n"]))
        if align > 1:
            mk = "%s<%s, %d>(%s)" % (maker_name(tdef, ir).replace("::Make", "::MakeAligned"), byte, align,
                                     ", ".join(pargs + ["p", "n"]))

        def emit(fn, ret, body, kind, path=(), extra=None):
            ctype = {"bool": "bool", "u64": "uint64_t", "i32": "int"}[ret]
            lines.append('extern "C" %s %s(%s) { auto v = %s; %s }' % (ctype, fn, sig, mk, body))
            entries.append(Entry(fn, sname, kind, path, ret, extra))

        emit("%s__ok" % sid, "bool", "return v.Ok();", "ok")
        emit("%s__is_complete" % sid, "bool", "return v.IsComplete();", "is_complete")
        emit("%s__size_known" % sid, "bool", "return v.SizeIsKnown();", "size_known")
        emit("%s__size" % sid, "u64", "return v.SizeIsKnown() ? static_cast<uint64_t>(v.SizeInBytes()) : 0;", "size")

        def emit_fields(owner_tdef, acc, path, depth):
            for f in owner_tdef.structure.field:
                fname = f.name.name.text
                if fname.startswith("emboss_reserved_anonymous_field"):
                    continue  # private in the generated view; reached through its aliases
                kind = field_kind(f, ir)
                cm = cpp_member(fname)
                fid = ident("__".join(list(path) + [fname]))
                has = "%s.has_%s()" % (acc, cm)
                view = "%s.%s()" % (acc, cm)
                fpath = tuple(path) + (fname,)
                emit("%s__has__%s" % (sid, fid), "i32",
                     "auto h = %s; return h.Known() ? (h.ValueOrDefault() ? 2 : 1) : 0;" % has, "has", fpath)
                if kind == "external":
                    continue
                emit("%s__fok__%s" % (sid, fid), "bool", "return %s.Ok();" % view, "field_ok", fpath, kind)
                if kind.startswith("scalar:") or kind == "enum" or kind.startswith("virtual:"):
                    if kind == "scalar:Float":
                        body = ("auto f = %s; if (!f.Ok()) return 0; auto x = f.Read(); uint64_t u = 0; "
                                "::std::memcpy(&u, &x, sizeof x); return u;" % view)
                    elif kind == "virtual:opaque" or kind == "virtual:None":
                        continue
                    else:
                        body = "auto f = %s; if (!f.Ok()) return 0; return static_cast<uint64_t>(f.Read());" % view
                    emit("%s__read__%s" % (sid, fid), "u64", body, "read", fpath, kind)
                elif kind == "bits" and depth < max_bits_depth:
                    sub = ir_util.find_object(f.type.atomic_type.reference.canonical_name, ir)
                    emit_fields(sub, view, fpath, depth + 1)
                elif kind == "array":
                    emit("%s__count__%s" % (sid, fid), "u64",
                         "auto f = %s; return static_cast<uint64_t>(f.ElementCount());" % view, "count", fpath, kind)
                    base = f.type.array_type.base_type
                    if base.has_field("atomic_type"):
                        bt = ir_util.find_object(base.atomic_type.reference.canonical_name, ir)
                        bcn = bt.name.canonical_name
                        scalar = (not bcn.module_file and tuple(bcn.object_path) in SCALAR_PRELUDE) or bt.has_field("enumeration")
                        for k in range(max_elems):
                            emit("%s__eok%d__%s" % (sid, k, fid), "bool",
                                 "auto f = %s; return %d < f.ElementCount() && f[%d].Ok();" % (view, k, k),
                                 "elem_ok", fpath, k)
                            if scalar and tuple(bcn.object_path) != ("Float",):
                                emit("%s__eread%d__%s" % (sid, k, fid), "u64",
                                     "auto f = %s; if (!(%d < f.ElementCount() && f[%d].Ok())) return 0; "
                                     "return static_cast<uint64_t>(f[%d].Read());" % (view, k, k, k),
                                     "elem_read", fpath, k)

        emit_fields(tdef, "v", (), 0)
        if writable:
            # writes through physical integer scalars, aliases and invertible virtual fields
            for f in tdef.structure.field:
                fname = f.name.name.text
                if fname.startswith("$") or fname.startswith("emboss_reserved_anonymous_field"):
                    continue
                kind = field_kind(f, ir)
                wm = f.write_method.which_method
                if kind.startswith("virtual:"):
                    if kind != "virtual:integer" or wm not in ("alias", "transform"):
                        continue
                elif kind not in ("scalar:UInt", "scalar:Int", "scalar:Bcd"):
                    continue
                fid = ident(fname)
                tname = "T_%s_%s" % (sid, fid)
                mk0 = "%s(%s)" % (maker_name(tdef, ir), ", ".join(["0"] * len(pargs) + ["static_cast<unsigned char*>(nullptr)", "0"]))
                if plist:
                    mk0 = "%s(%s)" % (maker_name(tdef, ir), ", ".join(
                        [a.replace("p_" + p.name.name.text, "0") for a, p in zip(pargs, tdef.runtime_parameter)] +
                        ["static_cast<unsigned char*>(nullptr)", "0"]))
                lines.append("using %s = decltype(%s.%s().Read());" % (tname, mk0, fname))
                lines.append('extern "C" bool %s__wtry__%s(%s, %s x) { auto v = %s; return v.%s().TryToWrite(x); }' % (
                    sid, fid, sig, tname, mk, fname))
                entries.append(Entry("%s__wtry__%s" % (sid, fid), sname, "wtry", (fname,), "bool", kind))
                lines.append('extern "C" bool %s__wsigned__%s() { return ::std::is_signed<%s>::value; }' % (sid, fid, tname))
                entries.append(Entry("%s__wsigned__%s" % (sid, fid), sname, "wsigned", (fname,), "bool", kind))
    return "\n".join(lines) + "\n", entries


def write_driver(ir, emb_name, out_dir, writable=False, align=1):
    src, entries = gen_driver(ir, emb_name + ".h", writable, align=align)
    path = os.path.join(out_dir, ident(emb_name) + ("_w" if writable else "") + ("_a%d" % align if align > 1 else "") + "_drv.cc")
    with open(path, "w") as f:
        f.write(src)
    return path, entries


def gen_driver2(ir, header_name):
    """Two-view entry points (Equals / TryToCopyFrom) for C20."""
    module = ir.module[0]
    lines = ['#include <cstdint>', '#include <cstddef>', '#include <cstring>', '#include "%s"' % header_name, ""]
    entries = []
    for tdef in all_structs(module):
        sname = ".".join(tdef.name.canonical_name.object_path)
        sid = ident(sname)
        plist, pargs = [], []
        for p in tdef.runtime_parameter:
            pn = p.name.name.text
            if p.type.which_type == "integer":
                plist.append("int64_t p_%s" % pn)
                pargs.append("p_%s" % pn)
            elif p.type.which_type == "enumeration":
                et = ir_util.find_object(p.type.enumeration.name.canonical_name, ir)
                plist.append("int64_t p_%s" % pn)
                pargs.append("static_cast<%s>(p_%s)" % (cpp_type_name(et, ir), pn))
            else:
                plist = None
                break
        if plist is None:
            continue
        mk = lambda ptr, n: "%s(%s)" % (maker_name(tdef, ir), ", ".join(pargs + [ptr, n]))
        sig_ro = ", ".join(["const unsigned char* p1", "size_t n1", "const unsigned char* p2", "size_t n2"] + plist)
        sig_rw = ", ".join(["unsigned char* p1", "size_t n1", "const unsigned char* p2", "size_t n2"] + plist)
        lines.append('extern "C" int %s__equals(%s) { auto a = %s; auto b = %s; if (!a.Ok() || !b.Ok()) return 2; return a.Equals(b) ? 1 : 0; }'
                     % (sid, sig_ro, mk("p1", "n1"), mk("p2", "n2")))
        entries.append(Entry("%s__equals" % sid, sname, "equals", (), "i32"))
        lines.append('extern "C" bool %s__copy(%s) { auto d = %s; auto s = %s; return d.TryToCopyFrom(s); }'
                     % (sid, sig_rw, mk("p1", "n1"), mk("p2", "n2")))
        entries.append(Entry("%s__copy" % sid, sname, "copy", (), "bool"))
    return "\n".join(lines) + "\n", entries
