"""Leaf-kernel drivers for C02/C03/C04: direct instantiations of the runtime's
scalar views, exactly the way generated headers compose them, plus the
reference semantics (DESIGN.md A.1) as z3 terms and as plain Python.
"""

import random

import z3

BV = z3.BitVecVal

ORDERERS = {"LE": "LittleEndianByteOrderer", "BE": "BigEndianByteOrderer", "Null": "NullByteOrderer"}
VIEWS = {"UInt": "UIntView", "Int": "IntView", "Bcd": "BcdView", "Flag": "FlagView", "Float": "FloatView"}


class Cfg:
    """One scalar field configuration.

    ty: UInt Int Bcd Flag Float EnumS EnumU
    c: container bits; o: bit offset; w: width; order: LE/BE/Null
    kind: 'bits' (field of a bits container: OffsetBitBlock) or 'bytes'
          (byte-oriented field directly in a struct: o == 0, w == c)
    A, O: alignment promise of the enclosing buffer; SA: sub-alignment template
          argument of GetOffsetStorage; koff: byte offset of the container
    ubits: underlying width of the enum type (EnumS/EnumU)
    """

    def __init__(self, ty, c, o, w, order, kind="bits", A=1, O=0, SA=1, koff=0, ubits=64):
        self.ty, self.c, self.o, self.w, self.order, self.kind = ty, c, o, w, order, kind
        self.A, self.O, self.SA, self.koff, self.ubits = A, O, SA, koff, ubits

    def key(self):
        return (self.ty, self.c, self.o, self.w, self.order, self.kind, self.A, self.O, self.SA, self.koff, self.ubits)

    def __repr__(self):
        return "%s w=%d @bit %d of %d-bit %s container (%s) at byte %d, buffer align %d+%d%s" % (
            self.ty, self.w, self.o, self.c, self.order, self.kind, self.koff, self.A, self.O,
            (" enum%d" % self.ubits) if self.ty.startswith("Enum") else "")

    def as_dict(self):
        return dict(ty=self.ty, c=self.c, o=self.o, w=self.w, order=self.order, kind=self.kind, A=self.A,
                    O=self.O, SA=self.SA, koff=self.koff, ubits=self.ubits)

    @property
    def signed(self):
        return self.ty in ("Int", "EnumS")

    @property
    def nbytes(self):
        return self.c // 8


def cfg_from_dict(d):
    return Cfg(**d)


PRELUDE = r"""
#include <cstdint>
#include <cstddef>
#include <cstring>
#include "runtime/cpp/emboss_prelude.h"
#include "runtime/cpp/emboss_enum_view.h"
using namespace ::emboss::support;
using namespace ::emboss::prelude;
enum class ES8 : ::std::int8_t { kZ = 0 };
enum class ES16 : ::std::int16_t { kZ = 0 };
enum class ES32 : ::std::int32_t { kZ = 0 };
enum class ES64 : ::std::int64_t { kZ = 0 };
enum class EU8 : ::std::uint8_t { kZ = 0 };
enum class EU16 : ::std::uint16_t { kZ = 0 };
enum class EU32 : ::std::uint32_t { kZ = 0 };
enum class EU64 : ::std::uint64_t { kZ = 0 };
template <class V> struct ValInfo {
  using T = typename V::ValueType;
  static constexpr unsigned size = sizeof(T);
};
template <class T, bool E = ::std::is_enum<T>::value> struct Under { using type = T; };
template <class T> struct Under<T, true> { using type = typename ::std::underlying_type<T>::type; };
"""


def view_type(cfg, storage):
    params = "FixedSizeViewParameters<%d, AllValuesAreOk>" % cfg.w
    if cfg.ty in VIEWS:
        return "%s<%s, %s>" % (VIEWS[cfg.ty], params, storage)
    return "EnumView<E%s%d, %s, %s>" % ("S" if cfg.ty == "EnumS" else "U", cfg.ubits, params, storage)


def gen_functions(idx, cfg, writable):
    """C++ for one configuration.  Mirrors generated code: the struct view's
    backing_ is ContiguousBuffer<Byte,A,O>; a field is reached through
    GetOffsetStorage<SA, koff % SA>(koff, size) and, for bits, the bits view's
    own GetOffsetStorage<0, o>(o, w)."""
    n = "k%d" % idx
    byte = "unsigned char" if writable else "const unsigned char"
    so = cfg.koff % cfg.SA if cfg.SA else cfg.koff
    lines = []
    lines.append("static inline auto mk_%s(%s* p, size_t n) {" % (n, byte))
    lines.append("  ContiguousBuffer<%s, %d, %d> buf(p, n);" % (byte, cfg.A, cfg.O))
    lines.append("  auto bb = buf.template GetOffsetStorage<%d, %d>(%d, %d);" % (cfg.SA, so, cfg.koff, cfg.nbytes))
    lines.append("  using Block = BitBlock<%s<decltype(bb)>, %d>;" % (ORDERERS[cfg.order], cfg.c))
    if cfg.kind == "bits":
        lines.append("  Block block(bb);")
        lines.append("  auto ob = block.template GetOffsetStorage<0, %d>(%d, %d);" % (cfg.o, cfg.o, cfg.w))
        lines.append("  return %s(ob);" % view_type(cfg, "decltype(ob)"))
    else:
        lines.append("  return %s(bb);" % view_type(cfg, "Block"))
    lines.append("}")
    V = "decltype(mk_%s(nullptr, 0))" % n
    lines.append('extern "C" bool %s_ok(%s* p, size_t n) { return mk_%s(p, n).Ok(); }' % (n, byte, n))
    if cfg.ty == "Float":
        ut = "::std::uint%d_t" % cfg.w
        lines.append('extern "C" uint64_t %s_read(%s* p, size_t n) { auto v = mk_%s(p, n); if (!v.Ok()) return 0; '
                     'auto f = v.Read(); %s u; ::std::memcpy(&u, &f, sizeof u); return u; }' % (n, byte, n, ut))
    elif cfg.signed:
        lines.append('extern "C" int64_t %s_read(%s* p, size_t n) { auto v = mk_%s(p, n); if (!v.Ok()) return 0; '
                     'return static_cast<int64_t>(v.Read()); }' % (n, byte, n))
    else:
        lines.append('extern "C" uint64_t %s_read(%s* p, size_t n) { auto v = mk_%s(p, n); if (!v.Ok()) return 0; '
                     'return static_cast<uint64_t>(v.Read()); }' % (n, byte, n))
    if cfg.ty == "Flag":
        # FlagView has no ValueType member; its Read() returns bool
        lines.append('extern "C" unsigned %s_vsize() { return sizeof(decltype(mk_%s(nullptr, 0).Read())); }' % (n, n))
        lines.append('extern "C" bool %s_vsigned() { return false; }' % n)
    else:
        lines.append('extern "C" unsigned %s_vsize() { return sizeof(typename %s::ValueType); }' % (n, V))
        lines.append('extern "C" bool %s_vsigned() { return ::std::is_signed<typename Under<typename %s::ValueType>::type>::value; }' % (n, V))
    if writable:
        if cfg.ty == "Float":
            ft = "float" if cfg.w == 32 else "double"
            ut = "::std::uint%d_t" % cfg.w
            lines.append('extern "C" bool %s_try(%s* p, size_t n, uint64_t x) { %s u = static_cast<%s>(x); %s f; '
                         '::std::memcpy(&f, &u, sizeof f); return mk_%s(p, n).TryToWrite(f); }' % (n, byte, ut, ut, ft, n))
            lines.append('extern "C" bool %s_could(uint64_t x) { %s u = static_cast<%s>(x); %s f; ::std::memcpy(&f, &u, sizeof f); '
                         'return %s::CouldWriteValue(f); }' % (n, ut, ut, ft, V))
        elif cfg.ty == "Flag":
            lines.append('extern "C" bool %s_try(%s* p, size_t n, bool x) { return mk_%s(p, n).TryToWrite(x); }' % (n, byte, n))
            lines.append('extern "C" bool %s_could(bool x) { return %s::CouldWriteValue(x); }' % (n, V))
        elif cfg.ty.startswith("Enum"):
            # enum values are passed at the enum's own type (no implicit narrowing exists for enum class)
            it = "%sint%d_t" % ("" if cfg.ty == "EnumS" else "u", cfg.ubits)
            lines.append('extern "C" bool %s_try(%s* p, size_t n, %s x) { return mk_%s(p, n).TryToWrite(static_cast<typename %s::ValueType>(x)); }'
                         % (n, byte, it, n, V))
            lines.append('extern "C" bool %s_could(%s x) { return %s::CouldWriteValue(static_cast<typename %s::ValueType>(x)); }'
                         % (n, it, V, V))
        elif cfg.ty == "Bcd":
            # BcdView::TryToWrite takes ValueType (not templated)
            lines.append('extern "C" bool %s_try(%s* p, size_t n, typename %s::ValueType x) { return mk_%s(p, n).TryToWrite(x); }' % (n, byte, V, n))
            lines.append('extern "C" bool %s_could(typename %s::ValueType x) { return %s::CouldWriteValue(x); }' % (n, V, V))
        else:
            for suffix, it in (("", "int64_t"), ("u", "uint64_t")):
                lines.append('extern "C" bool %s_try%s(%s* p, size_t n, %s x) { return mk_%s(p, n).TryToWrite(x); }' % (n, suffix, byte, it, n))
                lines.append('extern "C" bool %s_could%s(%s x) { return %s::CouldWriteValue(x); }' % (n, suffix, it, V))
    return "\n".join(lines) + "\n"


def gen_source(cfgs, writable, first_index=0):
    parts = [PRELUDE]
    for i, cfg in enumerate(cfgs):
        parts.append(gen_functions(first_index + i, cfg, writable))
    return "\n".join(parts)


# ----------------------------------------------------------------------
# Reference semantics (DESIGN.md A.1) -- z3
# ----------------------------------------------------------------------


def container_value(cfg, byte_at):
    """z3 BV(c): the container's bytes assembled in the field's byte order.
    byte_at(i) gives byte i of the container (BV8)."""
    k = cfg.nbytes
    bs = [byte_at(i) for i in range(k)]
    if cfg.order == "BE":
        msb_first = bs
    else:  # LE, Null (1 byte)
        msb_first = list(reversed(bs))
    return z3.Concat(*msb_first) if k > 1 else bs[0]


def field_bits(cfg, V):
    return z3.Extract(cfg.o + cfg.w - 1, cfg.o, V)


def bcd_ok(cfg, F):
    conds = []
    for i in range(0, cfg.w, 4):
        hi = min(i + 3, cfg.w - 1)
        nib = z3.Extract(hi, i, F)
        if hi - i + 1 == 4:
            conds.append(z3.ULE(nib, BV(9, 4)))
    return z3.And(*conds) if conds else z3.BoolVal(True)


def bcd_value(cfg, F, bits=64):
    total = BV(0, bits)
    p = 1
    for i in range(0, cfg.w, 4):
        hi = min(i + 3, cfg.w - 1)
        nib = z3.ZeroExt(bits - (hi - i + 1), z3.Extract(hi, i, F))
        total = total + nib * BV(p, bits)
        p *= 10
    return total


def read_spec(cfg, F):
    """64-bit read value per A.1 (signed types sign-extended to 64 bits)."""
    if cfg.ty in ("UInt", "EnumU", "Float"):
        return z3.ZeroExt(64 - cfg.w, F) if cfg.w < 64 else F
    if cfg.ty in ("Int", "EnumS"):
        return z3.SignExt(64 - cfg.w, F) if cfg.w < 64 else F
    if cfg.ty == "Flag":
        return F == BV(1, 1)
    if cfg.ty == "Bcd":
        return bcd_value(cfg, F)
    raise AssertionError(cfg.ty)


def ok_spec(cfg, F):
    return bcd_ok(cfg, F) if cfg.ty == "Bcd" else z3.BoolVal(True)


def bcd_max(w):
    return 10 ** (w // 4) * 2 ** (w % 4) - 1


def write_range(cfg):
    """(lo, hi) mathematical range of writable values."""
    if cfg.ty in ("UInt", "EnumU"):
        return 0, 2**cfg.w - 1
    if cfg.ty in ("Int", "EnumS"):
        return -(2 ** (cfg.w - 1)), 2 ** (cfg.w - 1) - 1
    if cfg.ty == "Bcd":
        return 0, bcd_max(cfg.w)
    if cfg.ty == "Flag":
        return 0, 1
    if cfg.ty == "Float":
        return 0, 2**cfg.w - 1
    raise AssertionError


def encode_spec(cfg, v64):
    """The w-bit pattern that reads back as v (v in range), from a 64-bit term."""
    if cfg.ty == "Bcd":
        digits = []
        rest = v64
        for i in range(0, cfg.w, 4):
            hi = min(i + 3, cfg.w - 1)
            d = z3.URem(rest, BV(10, 64)) if hi - i + 1 == 4 else rest
            digits.append(z3.Extract(hi - i, 0, d))
            rest = z3.UDiv(rest, BV(10, 64))
        return z3.Concat(*reversed(digits)) if len(digits) > 1 else digits[0]
    return z3.Extract(cfg.w - 1, 0, v64)


# ----------------------------------------------------------------------
# Reference semantics -- plain Python (used to judge native replays)
# ----------------------------------------------------------------------


def py_decode(cfg, data):
    """data: the container's bytes.  Returns (ok, value)."""
    k = cfg.nbytes
    bs = list(data[:k])
    V = int.from_bytes(bytes(bs), "big" if cfg.order == "BE" else "little")
    F = (V >> cfg.o) & ((1 << cfg.w) - 1)
    if cfg.ty in ("UInt", "EnumU", "Float"):
        return True, F
    if cfg.ty in ("Int", "EnumS"):
        return True, F - (1 << cfg.w) if F >> (cfg.w - 1) else F
    if cfg.ty == "Flag":
        return True, F
    if cfg.ty == "Bcd":
        val, p, ok = 0, 1, True
        for i in range(0, cfg.w, 4):
            nb = (F >> i) & 0xF
            if i + 4 > cfg.w:
                nb = (F >> i) & ((1 << (cfg.w - i)) - 1)
            if nb > 9:
                ok = False
            val += nb * p
            p *= 10
        return ok, val
    raise AssertionError


def py_encode(cfg, data, v):
    """Returns the container bytes after writing v (v in range)."""
    k = cfg.nbytes
    order = "big" if cfg.order == "BE" else "little"
    V = int.from_bytes(bytes(data[:k]), order)
    if cfg.ty == "Bcd":
        F = 0
        rest = v
        for i in range(0, cfg.w, 4):
            if i + 4 > cfg.w:
                F |= rest << i
            else:
                F |= (rest % 10) << i
                rest //= 10
    else:
        F = v & ((1 << cfg.w) - 1)
    mask = ((1 << cfg.w) - 1) << cfg.o
    V2 = (V & ~mask) | (F << cfg.o)
    return list(V2.to_bytes(k, order))


# ----------------------------------------------------------------------
# Configuration spaces
# ----------------------------------------------------------------------

ALIGN_VARIANTS = [
    dict(A=1, O=0, SA=1, koff=0),
    dict(A=1, O=0, SA=1, koff=3),
    dict(A=8, O=0, SA=8, koff=8),
    dict(A=8, O=4, SA=4, koff=4),
    dict(A=4, O=2, SA=2, koff=2),
    dict(A=4, O=0, SA=4, koff=4),
    dict(A=2, O=0, SA=2, koff=2),
    dict(A=8, O=0, SA=8, koff=0),
]


def legal_widths(ty, c):
    if ty == "Flag":
        return [1]
    if ty == "Float":
        return [w for w in (32, 64) if w <= c]
    return list(range(1, c + 1))


def all_bits_triples():
    for c in range(8, 65, 8):
        for w in range(1, c + 1):
            for o in range(0, c - w + 1):
                yield c, o, w


def enum_ubits_for(w):
    return [u for u in (8, 16, 32, 64) if u >= w]


def config_space(tier, seed, types=("UInt", "Int", "Bcd", "Flag", "Float", "EnumS", "EnumU")):
    """Quick: a boundary-biased subset plus a seeded sample.  Thorough: every
    (type, container, offset, width, byte order) with alignment variants
    rotated, plus every byte-oriented field under every alignment variant."""
    rng = random.Random(seed)
    cfgs = {}

    def add(cfg):
        cfgs.setdefault(cfg.key(), cfg)

    orders_for = lambda c: ["LE", "BE"] + (["Null"] if c == 8 else [])
    # byte-oriented fields directly in structs: all alignment variants
    for c in range(8, 65, 8):
        for order in orders_for(c):
            for av in ALIGN_VARIANTS:
                for ty in types:
                    if ty == "Flag" or (ty == "Float" and c not in (32, 64)):
                        continue
                    if ty.startswith("Enum"):
                        for u in enum_ubits_for(c):
                            add(Cfg(ty, c, 0, c, order, kind="bytes", ubits=u, **av))
                    else:
                        add(Cfg(ty, c, 0, c, order, kind="bytes", **av))
    triples = list(all_bits_triples())
    if tier == "quick":
        bw = {1, 2, 3, 4, 5, 7, 8, 9, 12, 15, 16, 17, 23, 24, 31, 32, 33, 47, 48, 63, 64}
        sel = []
        for (c, o, w) in triples:
            if w in bw and o in (0, 1, 3, 4, 7, c - w, max(0, c - w - 1)):
                sel.append((c, o, w))
        sel = rng.sample(sel, min(len(sel), 260))
        sel += rng.sample(triples, 140)
        triples = sel
    i = 0
    for (c, o, w) in triples:
        for order in orders_for(c):
            for ty in types:
                if w not in legal_widths(ty, c):
                    continue
                if tier == "quick" and ty != "Flag" and rng.random() < 0.45:
                    continue
                av = ALIGN_VARIANTS[i % len(ALIGN_VARIANTS)]
                i += 1
                if ty.startswith("Enum"):
                    us = enum_ubits_for(w)
                    u = us[i % len(us)] if tier == "quick" else None
                    for uu in ([u] if u else us):
                        add(Cfg(ty, c, o, w, order, ubits=uu, **av))
                else:
                    add(Cfg(ty, c, o, w, order, **av))
    return list(cfgs.values())
