"""C03 structure level: writes through physical integer fields, aliases and
invertible virtual fields of the corpus structures."""

import json
import os
import shutil
import subprocess

from vf import common, cxx, front, structs, struct_check
from vf.checks import c01

MAIN = r"""
#include <cstdio>
#include <cstdlib>
int main() {
  unsigned long n; long long x;
  if (scanf("%lu %lld", &n, &x) != 2) return 2;
  unsigned char* p = static_cast<unsigned char*>(malloc(n ? n : 1));
  for (unsigned long i = 0; i < n; ++i) { unsigned b; if (scanf("%x", &b) != 1) return 2; p[i] = (unsigned char)b; }
  long long a[8]; int na = 0; while (na < 8 && scanf("%lld", &a[na]) == 1) ++na;
  int has_before = (int)HAS;
  bool ok_before = FOK; long long before = ok_before ? (long long)READ : 0;
  bool r = WTRY;
  bool ok_after = FOK; long long after = ok_after ? (long long)READ : 0;
  printf("ret %d ok_before %d before %lld ok_after %d after %lld has_before %d\nbytes", (int)r, (int)ok_before, before, (int)ok_after, after, has_before);
  for (unsigned long i = 0; i < n; ++i) printf(" %02x", p[i]);
  printf("\n");
  free(p);
  return 0;
}
"""


def replay(c):
    d = common.scratch_dir("verif-r3-")
    try:
        ir = front.compile_module(c["module"], c["import_dirs"], d)
        src, entries = structs.write_driver(ir, c["module"], d, writable=True)
        sid = structs.ident(c["struct"])
        fid = structs.ident(c["path"][0])
        np_ = len(c["params"])
        pa = "".join(", a[%d]" % i for i in range(np_))
        defs = "#define FOK %s__fok__%s(p, n%s)\n#define READ %s__read__%s(p, n%s)\n#define WTRY %s__wtry__%s(p, n%s, x)\n#define HAS %s__has__%s(p, n%s)\n" % (
            sid, fid, pa, sid, fid, pa, sid, fid, pa, sid, fid, pa)
        main = os.path.join(d, "main.cc")
        with open(main, "w") as f:
            f.write('#include "%s"\n%s%s' % (os.path.basename(src), defs, MAIN))
        exe = os.path.join(d, "replay")
        cxx.compile_native(main, exe, includes=[d])
        x = c["x"]
        bits = c["x_bits"]
        if c["x_signed"] and x >> (bits - 1):
            x -= 1 << bits
        pvals = list(c["params"].values())
        stdin = "%d %d\n%s\n%s\n" % (c["n"], x, " ".join("%x" % b for b in c["bytes"]),
                                      " ".join(str(v - (1 << 64) if v >> 63 else v) for v in pvals))
        try:
            rc, out, err = cxx.run_native(exe, stdin)
        except subprocess.TimeoutExpired:
            return True, "native run timed out"
        if rc != 0:
            return True, "native run crashed: %s" % (err or out)[-300:]
        w = out.split()
        obs = {w[i]: int(w[i + 1]) for i in range(0, 12, 2)}
        after_bytes = [int(b, 16) for b in out.split("bytes")[1].split()]
        ob = c["obligation"]
        if ob.startswith("after a successful write"):
            xm = x % (1 << 64)
            bad = obs["ret"] == 1 and not (obs["ok_after"] == 1 and (obs["after"] % (1 << 64)) == xm)
            return bad, "TryToWrite(%d) returned %d; afterwards Ok()=%d Read()=%d" % (x, obs["ret"], obs["ok_after"], obs["after"])
        if ob.startswith("a write succeeds only"):
            # driver encoding of has_x(): 2 present, 1 absent, 0 unknown
            bad = obs["ret"] == 1 and obs["has_before"] != 2
            return bad, "has_%s() = %d (2 present / 1 absent / 0 unknown), TryToWrite(%d) returned %d" % (c["path"][0], obs["has_before"], x, obs["ret"])
        if ob.startswith("a failed write"):
            bad = obs["ret"] == 0 and after_bytes != c["bytes"][:c["n"]]
            return bad, "TryToWrite(%d) returned 0 and the buffer changed: %s -> %s" % (x, c["bytes"], after_bytes)
        if ob.startswith("writing the value"):
            bad = obs["ok_before"] == 1 and obs["before"] % (1 << 64) == x % (1 << 64) and obs["ret"] == 0
            return bad, "field reads %d, TryToWrite(%d) returned %d" % (obs["before"], x, obs["ret"])
        changed = [i for i, (a, b) in enumerate(zip(c["bytes"], after_bytes)) if a != b]
        return obs["ret"] == 1 and bool(changed), "TryToWrite(%d) returned %d; bytes changed at offsets %s (symbolic check: outside the destination field)" % (
            x, obs["ret"], changed)
    finally:
        shutil.rmtree(d, ignore_errors=True)


def run(rep, tier):
    mods = struct_check.corpus()
    if tier == "quick":
        slow = ("testdata/dynamic_size.emb", "testdata/bcd.emb", "testdata/int_sizes.emb")  # thorough only
        mods = [m for m in mods if (m[0] in c01.QUICK_MODULES and m[0] not in slow) or struct_check.in_quick_corpus(m[0])]
    results = struct_check.run_corpus(struct_check.check_module_c03, {"nmax": 12 if tier == "quick" else 32}, mods)
    out = {"structures": 0, "write_entry_points": 0, "queries": 0, "obligations": 0, "unsat": 0, "witnesses": 0, "replayed": 0,
           "skipped": [], "not_encoded": []}
    seen = {}
    for r in results:
        out["structures"] += r.structures
        out["write_entry_points"] += r.entries
        out["queries"] += r.queries
        out["obligations"] += r.compared
        out["unsat"] += r.unsat
        out["witnesses"] += r.witnesses
        out["skipped"] += ["%s: %s (%s)" % (r.module, a, b) for a, b in r.skipped][:3]
        out["not_encoded"] += ["%s: %s" % (r.module, x) for x in r.not_encoded][:3]
        for e in r.errors[:3]:
            rep.harness_error(e)
        for u in r.unknown[:8]:
            rep.inconclusive_item("%s: %s" % (r.module, u))
        for s in r.samples[:1]:
            rep.sample(s, cap=10)
        for c in r.candidates:
            key = {"level": "structure", "module": c["module"], "struct": c["struct"], "path": c["path"][0]}
            sig = json.dumps(key, sort_keys=True) + c["obligation"][:20]
            seen[sig] = seen.get(sig, 0) + 1
            if seen[sig] > 1:
                continue
            if rep.match_known(key) is not None:
                rep.violation(key, c["what"], c)  # prints the KNOWN-FINDING line
                continue
            ok, observed = replay(c)
            out["replayed"] += 1
            if not ok:
                rep.harness_error("candidate did not reproduce natively: %s (%s) n=%d bytes=%s x=%d" % (c["what"], observed, c["n"], c["bytes"], c["x"]))
                continue
            rep.violation(key, "%s: %s (n=%d bytes=%s params=%s)" % (c["what"], observed, c["n"], c["bytes"], c["params"]), c)
    out["skipped"] = out["skipped"][:20]
    out["not_encoded"] = out["not_encoded"][:20]
    return out
