"""C08 -- the LR(1) generator builds a parser for exactly the grammar's language.

Per grammar G the real lr1.Grammar(start, productions).parser() is built
concretely (grammars are configurations); the real Parser.parse is then
executed on token strings whose symbols are finite-domain solver variables
(E1): table rows are wrapped so that `symbol in row` / `row[symbol]` fork over
the row's own keys plus "none of them", so paths correspond to viable
prefixes and the error branch keeps the offending token symbolic.  Oracle: an
independent Earley recognizer / derivation counter built from the production
list alone; on an error path the solver is asked whether the path condition
admits an offending token that some sentence could continue with.
"""

import itertools
import json
import multiprocessing
import random
import time
import traceback

import z3

from vf import common, pysym

from compiler.front_end import lr1, module_ir
from compiler.util import parser_types

P = parser_types.Production.parse


# ----------------------------------------------------------------------
# symbolic tokens and table rows
# ----------------------------------------------------------------------


class SymSymbol:
    """The `.symbol` of a token: a solver variable over the terminal alphabet,
    resolved lazily (by the table row that looks it up)."""

    def __init__(self, var, alphabet):
        self.var, self.alphabet = var, alphabet
        self.resolved = None

    def resolve_to(self, k):
        self.resolved = k

    def __eq__(self, other):
        if self.resolved is not None:
            return self.resolved == other
        if other in self.alphabet:
            if pysym.ctx().fork(self.var == self.alphabet.index(other)):
                self.resolved = other
                return True
        return False

    def __ne__(self, other):
        return not self.__eq__(other)

    def __hash__(self):
        if self.resolved is None:
            raise pysym.HarnessGap("hash of an unresolved symbolic token")
        return hash(self.resolved)

    def __repr__(self):
        return "SymSymbol(%s)" % (self.resolved if self.resolved is not None else self.var)


class SymToken:
    source_location = None

    def __init__(self, var, alphabet):
        self.symbol = SymSymbol(var, alphabet)
        self.text = "?"


class SymRow:
    """A row of the action table whose lookups fork over its own keys."""

    def __init__(self, row):
        self.row = row

    def _find(self, sym):
        if not isinstance(sym, SymSymbol):
            return sym if sym in self.row else None
        if sym.resolved is not None:
            return sym.resolved if sym.resolved in self.row else None
        c = pysym.ctx()
        for k in sorted(self.row, key=str):
            if k in sym.alphabet and c.fork(sym.var == sym.alphabet.index(k)):
                sym.resolve_to(k)
                return k
        return None  # none of the row's keys: the path condition now excludes them all

    def __contains__(self, sym):
        return self._find(sym) is not None

    def __getitem__(self, sym):
        k = self._find(sym)
        if k is None:
            raise KeyError(sym)
        return self.row[k]

    def get(self, sym, default=None):
        k = self._find(sym)
        return self.row[k] if k is not None else default

    def keys(self):
        return self.row.keys()

    def items(self):
        return self.row.items()


# ----------------------------------------------------------------------
# independent oracle: Earley recognition, viable next terminals, tree counting
# ----------------------------------------------------------------------


class Oracle:
    def __init__(self, start, productions):
        self.start = start
        self.prods = [(p.lhs, tuple(p.rhs)) for p in productions]
        self.nonterminals = {l for l, _ in self.prods}
        self.terminals = sorted({s for _, r in self.prods for s in r if s not in self.nonterminals}, key=str)
        # productive nonterminals
        prod = set()
        changed = True
        while changed:
            changed = False
            for l, r in self.prods:
                if l not in prod and all(s in prod or s not in self.nonterminals for s in r):
                    prod.add(l)
                    changed = True
        self.productive = prod
        self.useful = [(l, r) for l, r in self.prods if l in prod and all(s in prod or s not in self.nonterminals for s in r)]
        self.reduced = all(l in prod for l in self.nonterminals) and all(
            s in self.nonterminals or True for _, r in self.prods for s in r)
        self.by_lhs = {}
        for l, r in self.useful:
            self.by_lhs.setdefault(l, []).append(r)

    def _chart(self, w):
        """Earley chart over the productive part of the grammar."""
        S = [set() for _ in range(len(w) + 1)]
        if self.start in self.productive:
            for r in self.by_lhs.get(self.start, []):
                S[0].add((self.start, r, 0, 0))
        for i in range(len(w) + 1):
            work = list(S[i])
            while work:
                (l, r, d, o) = work.pop()
                if d < len(r):
                    X = r[d]
                    if X in self.nonterminals:
                        for rr in self.by_lhs.get(X, []):
                            it = (X, rr, 0, i)
                            if it not in S[i]:
                                S[i].add(it)
                                work.append(it)
                        # nullable completion already in this set
                        for (l2, r2, d2, o2) in list(S[i]):
                            if l2 == X and d2 == len(r2) and o2 == i:
                                it = (l, r, d + 1, o)
                                if it not in S[i]:
                                    S[i].add(it)
                                    work.append(it)
                    elif i < len(w) and w[i] == X:
                        S[i + 1].add((l, r, d + 1, o))
                else:
                    for (l2, r2, d2, o2) in list(S[o]):
                        if d2 < len(r2) and r2[d2] == l:
                            it = (l2, r2, d2 + 1, o2)
                            if it not in S[i]:
                                S[i].add(it)
                                work.append(it)
        return S

    def accepts(self, w):
        S = self._chart(list(w))
        return any(l == self.start and d == len(r) and o == 0 for (l, r, d, o) in S[len(w)])

    def next_terminals(self, prefix):
        """(terminals t such that prefix.t is a prefix of a sentence, prefix itself a sentence?)"""
        S = self._chart(list(prefix))
        last = S[len(prefix)]
        nxt = {r[d] for (l, r, d, o) in last if d < len(r) and r[d] not in self.nonterminals}
        complete = any(l == self.start and d == len(r) and o == 0 for (l, r, d, o) in last)
        return nxt, complete

    def count_trees(self, w, cap=3):
        """Number of distinct derivation trees of w (capped); cyclic grammars count as ambiguous."""
        w = list(w)
        n = len(w)
        memo = {}
        active = set()

        def sym(X, i, j):
            if X not in self.nonterminals:
                return 1 if j == i + 1 and w[i] == X else 0
            key = (X, i, j)
            if key in memo:
                return memo[key]
            if key in active:
                return cap  # derivation cycle: infinitely many trees
            active.add(key)
            total = 0
            for r in self.by_lhs.get(X, []):
                total += seq(r, 0, i, j)
                if total >= cap:
                    break
            active.discard(key)
            memo[key] = min(total, cap)
            return memo[key]

        def seq(r, d, i, j):
            if d == len(r):
                return 1 if i == j else 0
            total = 0
            for m in range(i, j + 1):
                a = sym(r[d], i, m)
                if a:
                    total += a * seq(r, d + 1, m, j)
                    if total >= cap:
                        return cap
            return total

        return sym(self.start, 0, n)


def tree_is_derivation(tree, prods, leaves_out):
    if isinstance(tree, lr1.Reduction):
        rhs = []
        for ch in tree.children:
            ok = tree_is_derivation(ch, prods, leaves_out)
            if not ok:
                return False
            rhs.append(ch.symbol if isinstance(ch, lr1.Reduction) else (ch.symbol.resolved if isinstance(ch.symbol, SymSymbol) else ch.symbol))
        return (tree.symbol, tuple(rhs)) in prods and tuple(tree.production.rhs) == tuple(rhs) and tree.production.lhs == tree.symbol
    leaves_out.append(tree.symbol.resolved if isinstance(tree.symbol, SymSymbol) else tree.symbol)
    return True


# ----------------------------------------------------------------------
# grammars
# ----------------------------------------------------------------------

CATALOGUE = [
    # (name, start, productions, expectation: "lr1" | "conflict")
    ("lr1_test expression", "E", ["E -> T + E", "E -> T", "T -> ( E )", "T -> n"], "lr1"),
    ("left recursive expression", "E", ["E -> E + T", "E -> T", "T -> T * F", "T -> F", "F -> ( E )", "F -> n"], "lr1"),
    ("left recursive list", "L", ["L -> L , x", "L -> x"], "lr1"),
    ("right recursive list", "L", ["L -> x , L", "L -> x"], "lr1"),
    ("epsilon chain", "S", ["S -> Y X c", "Y -> y", "Y ->", "X -> A B", "A -> a", "A ->", "B -> b", "B ->"], "lr1"),
    ("nullable start", "S", ["S -> A B", "A -> a A", "A ->", "B -> b B", "B ->"], "lr1"),
    ("nested optional", "S", ["S -> a O b", "O -> P", "P -> Q", "Q -> q", "Q ->"], "lr1"),
    ("lr1 not lalr1", "S", ["S -> a E a", "S -> b E b", "S -> a F b", "S -> b F a", "E -> e", "F -> e"], "lr1"),
    ("matched pairs", "S", ["S -> a S b", "S ->"], "lr1"),
    ("palindromes with centre", "S", ["S -> a S a", "S -> b S b", "S -> c"], "lr1"),
    ("statement list", "P", ["P -> S P", "P ->", "S -> i ;", "S -> { P }", "S -> i = i ;"], "lr1"),
    ("declarations with lookahead", "D", ["D -> T V ;", "T -> i", "T -> i *", "V -> i", "V -> i [ ]"], "lr1"),
    ("first through a nullable lead, completed late", "S", ["S -> Z X", "X -> N Y", "N -> n", "N ->", "Y -> Z", "Z -> z"], "lr1"),
    ("first through two nullable leads", "S", ["S -> Z X", "X -> N M Y", "N -> n", "N ->", "M -> m", "M ->", "Y -> W", "W -> Z", "Z -> z"], "lr1"),
    ("nullable tail decides the lookahead", "S", ["S -> x X c", "S -> y X d", "X -> A B", "A -> a", "B -> b", "B ->"], "lr1"),
    ("optional suffix chain", "S", ["S -> a T", "T -> U V", "U -> u", "U ->", "V -> W", "W -> w", "W ->"], "lr1"),
    ("ambiguous expression", "E", ["E -> E + E", "E -> n"], "conflict"),
    ("dangling else", "S", ["S -> i S", "S -> i S e S", "S -> x"], "conflict"),
    ("ambiguous epsilon", "S", ["S -> A A", "A -> a", "A ->"], "conflict"),
    ("unit cycle", "S", ["S -> A", "A -> S", "A -> a"], "conflict"),
    ("two ways to c", "S", ["S -> Y X c", "S -> c", "Y ->", "X ->"], "conflict"),
    ("even palindromes (not LR)", "S", ["S -> a S a", "S -> b S b", "S ->"], "conflict"),
]


def random_grammar(rng):
    nts = ["S", "A", "B", "C"][: rng.randint(1, 4)]
    ts = ["a", "b", "c"][: rng.randint(1, 3)]
    prods = []
    for _ in range(rng.randint(2, 6)):
        lhs = rng.choice(nts)
        rhs = [rng.choice(nts + ts + ts) for _ in range(rng.randint(0, 3))]
        prods.append("%s -> %s" % (lhs, " ".join(rhs)))
    if not any(p.startswith("S ->") for p in prods):
        prods.append("S -> " + rng.choice(ts))
    return sorted(set(prods))


def layered_grammar(rng):
    """Second random family: five or six nonterminals in layers (a right-hand side mostly uses later
    nonterminals), many nullable and unit productions -- FIRST sets and lookaheads that need several
    rounds of the fixed point, few conflicts."""
    nts = ["S", "A", "B", "C", "D", "E"][: rng.randint(5, 6)]
    ts = ["a", "b", "c", "d"][: rng.randint(2, 4)]
    prods = []
    for i, lhs in enumerate(nts):
        later = nts[i + 1:] or ts
        for _ in range(rng.randint(1, 2)):
            n = rng.randint(1, 3)
            rhs = [rng.choice(later) if rng.random() < 0.65 else rng.choice(ts) for _ in range(n)]
            prods.append("%s -> %s" % (lhs, " ".join(rhs)))
        if i > 0 and rng.random() < 0.4:
            prods.append("%s ->" % lhs)
    return sorted(set(prods))


# ----------------------------------------------------------------------
# one grammar
# ----------------------------------------------------------------------


def check_grammar(job):
    name, start, prod_texts, expect, n = job[:5]
    first = job[5] if len(job) > 5 else None  # work splitting: pin the first token
    max_paths = job[6] if len(job) > 6 else 60000
    out = {"grammar": name, "n": n, "paths": 0, "obligations": 0, "discharged": 0, "candidates": [], "unknown": 0,
           "accepted": 0, "errors": 0, "conflicts": None}
    try:
        prods = [P(t) if isinstance(t, str) else t for t in prod_texts]
        oracle = Oracle(start, prods)
        prodset = {(p.lhs, tuple(p.rhs)) for p in prods} | {(lr1.START_PRIME, (start,))}
        try:
            parser = lr1.Grammar(start, prods).parser()
        except Exception as e:  # pylint: disable=broad-except
            out["candidates"].append({"grammar": name, "productions": [str(p) for p in prods], "start": start,
                                      "what": "generator raised %s: %s" % (type(e).__name__, str(e)[:100]), "kind": "generator"})
            return out
        out["conflicts"] = len(parser.conflicts)
        desc = {"grammar": name, "productions": [str(p) for p in prods], "start": start}
        if expect == "conflict":
            out["obligations"] += 1
            if parser.conflicts:
                out["discharged"] += 1
            else:
                out["candidates"].append(dict(desc, what="ambiguous / non-LR(1) grammar accepted as conflict-free", kind="conflicts", tokens=[]))
        if parser.conflicts:
            return out  # "either reports conflicts or ..."
        alphabet = list(oracle.terminals)
        if not alphabet:
            alphabet = ["a"]
        class SymAction(dict):
            def get(self, k, default=None):
                return self[k] if k in self else SymRow({})

            def __missing__(self, k):  # the real table is a defaultdict(dict)
                return SymRow({})

        sym_action = SymAction({s: SymRow(r) for s, r in parser.action.items()})
        saved = parser.action
        holder = {}
        ambiguous = []

        def body(c):
            if first is None:
                length = c.choose(n + 1, "length")
            elif first == "":
                length = 0
            else:
                length = 1 + c.choose(n, "length")
            toks = []
            for i in range(length):
                v = z3.Int("t%d" % i)
                c.assume(z3.And(v >= 0, v < len(alphabet)))
                if i == 0 and first:
                    c.assume(v == alphabet.index(first))
                toks.append(SymToken(v, alphabet))
            holder["toks"] = toks
            return parser.parse(toks)

        def on_path(pr):
            c = pr.ctx
            toks = holder["toks"]
            out["paths"] += 1

            def model_tokens():
                m = c.witness()
                if m is None:
                    return None
                return [t.symbol.resolved if t.symbol.resolved is not None else alphabet[m.eval(t.symbol.var, model_completion=True).as_long()]
                        for t in toks]

            out["obligations"] += 1
            if pr.kind == "raise":
                out["candidates"].append(dict(desc, what="Parser.parse raised %s: %s" % (type(pr.exc).__name__, str(pr.exc)[:80]),
                                              kind="crash", tokens=model_tokens()))
                return
            res = pr.value
            if res.error is None:
                out["accepted"] += 1
                w = [t.symbol.resolved for t in toks]
                if any(x is None for x in w):
                    out["candidates"].append(dict(desc, what="accepted without looking at every token", kind="accept", tokens=model_tokens()))
                    return
                leaves = []
                ok_tree = tree_is_derivation(res.parse_tree, prodset, leaves) and leaves == w and res.parse_tree.symbol == start
                if not oracle.accepts(w):
                    out["candidates"].append(dict(desc, what="accepted a string the grammar does not derive", kind="accept", tokens=w))
                elif not ok_tree:
                    out["candidates"].append(dict(desc, what="parse tree is not a derivation of the input", kind="tree", tokens=w))
                else:
                    out["discharged"] += 1
                    if oracle.count_trees(w) > 1:
                        ambiguous.append(w)
            else:
                out["errors"] += 1
                e = res.error
                i = e.index
                prefix = [t.symbol.resolved for t in toks[:i]]
                if any(x is None for x in prefix):
                    out["candidates"].append(dict(desc, what="error raised after an unexamined token", kind="error", tokens=model_tokens()))
                    return
                nxt, complete = oracle.next_terminals(prefix)
                # the prefix before the error must be viable (a sentence can still follow), unless it is empty
                viable = bool(nxt) or complete
                if i < len(toks):
                    sym = toks[i].symbol
                    if sym.resolved is not None:
                        bad = sym.resolved in nxt
                        cond_model = None
                    else:
                        # does the path condition admit an offending token that some sentence continues with?
                        allowed = [alphabet.index(t) for t in nxt if t in alphabet]
                        r, m = c.prove(z3.And(*[sym.var != k for k in allowed]) if allowed else z3.BoolVal(True))
                        bad = r == "sat"
                        if r == "unknown":
                            out["unknown"] += 1
                            return
                else:
                    bad = complete  # error at end of input although the input is a sentence
                if not oracle.reduced:
                    # the viable-prefix property of LR parsing is a property of reduced grammars (every
                    # nonterminal derives some terminal string); for the others only membership, trees and
                    # completeness are claimed
                    out["discharged"] += 1
                elif not viable and i > 0:
                    out["candidates"].append(dict(desc, what="error reported at token %d, but the input was already dead earlier" % i, kind="error", tokens=model_tokens()))
                elif bad:
                    out["candidates"].append(dict(desc, what="error reported at token %d although some sentence continues with that token" % i, kind="error", tokens=model_tokens()))
                else:
                    out["discharged"] += 1

        parser.action = sym_action
        try:
            with pysym.instrument():
                st, complete = pysym.explore(body, on_path, max_paths=max_paths, timeout_ms=10000)
        finally:
            parser.action = saved
        if not complete:
            out["unknown"] += 1
        # conflict-free => unambiguous on every sentence up to n
        out["obligations"] += 1
        if ambiguous:
            out["candidates"].append(dict(desc, what="no conflict reported but %r has two derivations" % (ambiguous[0],), kind="conflicts", tokens=ambiguous[0]))
        else:
            out["discharged"] += 1
        # completeness cross-check for small alphabets: every sentence of length <= n was accepted on some path
        if first is None and len(alphabet) ** n <= 4000:
            expected = sum(1 for k in range(n + 1) for w in itertools.product(alphabet, repeat=k) if oracle.accepts(w))
            out["obligations"] += 1
            if expected == out["accepted"]:
                out["discharged"] += 1
            else:
                missing = next((list(w) for k in range(n + 1) for w in itertools.product(alphabet, repeat=k)
                                if oracle.accepts(w) and parser.parse([parser_types.Token(s, s, None) for s in w]).error is not None), None)
                out["candidates"].append(dict(desc, what="%d sentences of length <= %d, %d accepting paths" % (expected, n, out["accepted"]),
                                              kind="reject", tokens=missing))
    except pysym.HarnessGap as g:
        out["error"] = "HarnessGap: %s" % g
    except Exception as e:  # pylint: disable=broad-except
        out["error"] = "".join(traceback.format_exception(type(e), e, e.__traceback__))[-1200:]
    return out


def replay(c):
    """Builds the parser with the real generator and feeds it plain tokens."""
    prods = [P(t) for t in c["productions"]]
    oracle = Oracle(c["start"], prods)
    try:
        parser = lr1.Grammar(c["start"], prods).parser()
    except Exception as e:  # pylint: disable=broad-except
        return True, "generator raised %s" % type(e).__name__
    kind = c.get("kind")
    if kind == "conflicts":
        if parser.conflicts:
            return False, "conflicts are reported"
        w = c.get("tokens") or []
        if w:
            return oracle.count_trees(w) > 1, "%r has %d derivations and no conflict is reported" % (w, oracle.count_trees(w))
        # expectation from the catalogue: find an ambiguous sentence or a mis-parse as evidence
        alphabet = oracle.terminals
        for k in range(0, 7):
            for w in itertools.product(alphabet, repeat=k):
                acc = oracle.accepts(w)
                res = parser.parse([parser_types.Token(s, s, None) for s in w])
                if acc and oracle.count_trees(w) > 1:
                    return True, "no conflict reported, but %r has two derivations" % (list(w),)
                if acc != (res.error is None):
                    return True, "no conflict reported, and %r is %s but %s" % (list(w), "derivable" if acc else "not derivable",
                                                                               "accepted" if res.error is None else "rejected")
        return False, "no ambiguous sentence or mis-parse found up to length 6"
    w = c.get("tokens")
    if w is None:
        return False, "no tokens"
    try:
        res = parser.parse([parser_types.Token(s, s, None) for s in w])
    except Exception as e:  # pylint: disable=broad-except
        return True, "Parser.parse raised %s on %r" % (type(e).__name__, w)
    acc = oracle.accepts(w)
    if res.error is None:
        leaves = []

        def walk(t):
            if isinstance(t, lr1.Reduction):
                ok = all(walk(ch) for ch in t.children)
                rhs = tuple(ch.symbol for ch in t.children)
                return ok and (t.symbol, rhs) in {(p.lhs, tuple(p.rhs)) for p in prods}
            leaves.append(t.symbol)
            return True

        okt = walk(res.parse_tree) and leaves == list(w)
        return (not acc) or (not okt), "accepted %r (derivable: %s, tree is a derivation: %s)" % (w, acc, okt)
    i = res.error.index
    nxt, complete = oracle.next_terminals(list(w[:i]))
    if acc:
        return True, "rejected the derivable string %r" % (w,)
    off = w[i] if i < len(w) else None
    wrong = (off in nxt) if off is not None else complete
    dead_earlier = i > 0 and not (nxt or complete)
    return wrong or dead_earlier, "error at token %d of %r; terminals that can follow the prefix: %s" % (i, w, sorted(nxt))


def main(tier):
    rep = common.Report("C08", tier, "model_checking")
    n_cat = 6 if tier == "quick" else 8
    jobs = [(name, start, prods, expect, n_cat) for name, start, prods, expect in CATALOGUE]
    rng = random.Random(common.seed() + 17)
    for k in range(80 if tier == "quick" else 400):
        g = random_grammar(rng)
        jobs.append(("random-%d" % k, "S", g, "any", 4 if tier == "quick" else 6))
    for k in range(60 if tier == "quick" else 300):
        jobs.append(("random-layered-%d" % k, "S", layered_grammar(rng), "any", 4 if tier == "quick" else 6))
    # the two Emboss grammars (real production list)
    emb = sorted(module_ir.PRODUCTIONS)
    emb_terms = Oracle(module_ir.EXPRESSION_START_SYMBOL, emb).terminals
    for first in [""] + list(emb_terms):
        jobs.append(("emboss expression", module_ir.EXPRESSION_START_SYMBOL, emb, "lr1", 4 if tier == "quick" else 5, first,
                     60000 if tier == "quick" else 400000))
    if tier == "thorough":
        for first in [""] + list(emb_terms):
            jobs.append(("emboss module", module_ir.START_SYMBOL, emb, "lr1", 5, first, 400000))
    jobs.sort(key=lambda j: 0 if j[0].startswith("emboss") else 1)
    with multiprocessing.Pool(common.ncpu()) as pool:
        results = pool.map(check_grammar, jobs, chunksize=1)
    tot = {"paths": 0, "obligations": 0, "discharged": 0, "accepted": 0, "errors": 0}
    cands = []
    conflict_free = 0
    for r in results:
        if "error" in r:
            rep.harness_error("%s: %s" % (r["grammar"], r["error"]))
            continue
        for k in tot:
            tot[k] += r[k]
        if r["unknown"]:
            rep.inconclusive_item("%s: exploration incomplete or solver unknown" % r["grammar"])
        if r["conflicts"] == 0:
            conflict_free += 1
        cands += r["candidates"]
        if r["grammar"] in ("epsilon chain", "lr1 not lalr1"):
            rep.sample({k: v for k, v in r.items() if k != "candidates"})
    seen = set()
    for c in cands:
        sig = (c["grammar"], c["kind"])
        if sig in seen:
            continue
        seen.add(sig)
        ok, observed = replay(c)
        if ok:
            rep.violation({"grammar": c["grammar"] if not c["grammar"].startswith("random") else "random", "kind": c["kind"]},
                          "C08 grammar %s %s: %s; %s" % (c["grammar"], c["productions"] if len(c["productions"]) < 12 else "(%d productions)" % len(c["productions"]),
                                                         c["what"], observed), c)
        else:
            rep.harness_error("candidate did not reproduce: %s %s (%s)" % (c["grammar"], c["what"], observed))
    if tot["accepted"] == 0 or tot["errors"] == 0:
        rep.harness_error("no accepting or no error path explored (vacuous)")
    rep.coverage.update({
        "states": len(jobs), "transitions": tot["paths"], "traces_validated_against_impl": len(seen),
        "exhaustive": False, "grammars": len(jobs), "conflict_free_grammars": conflict_free,
        "obligations": tot["obligations"], "discharged": tot["discharged"], "accepting_paths": tot["accepted"], "error_paths": tot["errors"],
        "bounds": {"token strings": "every string of length <= n per grammar (n = %d catalogue, %d random, %d Emboss expression grammar)" % (
            n_cat, 4 if tier == "quick" else 6, 4 if tier == "quick" else 5),
                   "grammars": "%d catalogue + %d seeded random small CFGs + %d seeded layered CFGs (5-6 nonterminals, nullable/unit chains) + Emboss grammar(s)" % (
                       len(CATALOGUE), 80 if tier == "quick" else 400, 60 if tier == "quick" else 300),
                   "outside": "longer strings; grammars outside the catalogue/random family (the shipped Emboss tables are C09)"},
        "explanation": "states = grammars; transitions = explored parser paths (viable prefixes and their first dead token)",
    })
    rep.assumptions += ["token symbols range over the grammar's terminals", "oracle: Earley recognizer and derivation counter in vf/checks/c08.py"]
    return rep.finish()


def replay_file(path):
    with open(path) as f:
        obj = json.load(f)
    ok, observed = replay(obj["replay"])
    print("replay %s: %s -> %s" % (path, "REPRODUCED" if ok else "did not reproduce", observed))
    if ok:
        print("VIOLATION property=C08 replay=%s" % path)
    return 1 if ok else 0
