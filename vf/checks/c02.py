"""C02 -- scalar fields decode with the documented byte order, bit numbering
and format.  E2 (clang -O2 LLVM IR of runtime/cpp views -> z3 bit-vectors);
every container content and buffer length per configuration."""

import json

from vf import common, kernels, kernel_check


def classify(cand):
    cfg = cand["cfg"]
    key = {"type": cfg["ty"], "aspect": "other"}
    what = cand.get("what", "")
    if "Read()" in what:
        key["aspect"] = "read"
    elif "Ok()" in what:
        key["aspect"] = "ok"
    elif "sizeof" in what:
        key["aspect"] = "value_type_width"
    elif "signedness" in what:
        key["aspect"] = "value_type_signedness"
    if cfg["order"] == "Null":
        key["byte_order"] = "Null"
    if cfg["ty"] == "EnumS":
        key["field_narrower_than_underlying"] = cfg["w"] < cfg["ubits"]
    return key


def replay(cand):
    """Native run (ASan+UBSan, runtime checks on) against the Python reference."""
    cfg = kernels.cfg_from_dict(cand["cfg"])
    what = cand.get("what", "")
    obs = kernel_check.native_run(cfg, cand.get("n", 0), cand.get("bytes", []))
    if "crash" in obs:
        return True, "native run crashed: %s" % obs["crash"][:500], obs
    if "sizeof" in what:
        need = 1 if cfg.ty == "Flag" else cfg.w
        return obs.get("vsize", 0) * 8 < need, "sizeof(ValueType)=%s for width %d" % (obs.get("vsize"), cfg.w), obs
    if "signedness" in what:
        want = 1 if cfg.signed else 0
        return obs.get("vsigned") != want, "ValueType signed=%s, expected %s" % (obs.get("vsigned"), want), obs
    n, data = cand["n"], cand["bytes"]
    present = n >= cfg.koff + cfg.nbytes
    if present:
        ok, val = kernels.py_decode(cfg, data[cfg.koff:cfg.koff + cfg.nbytes])
    else:
        ok, val = False, None
    if obs.get("ok") != (1 if ok else 0):
        return True, "Ok()=%s, reference %s" % (obs.get("ok"), ok), obs
    if ok:
        got = obs.get("read")
        if cfg.signed and got is not None and got >= 1 << 63:
            got -= 1 << 64
        if got != val:
            return True, "Read()=%s, reference %s" % (got, val), obs
    return False, "native run agrees with the reference", obs


def main(tier):
    rep = common.Report("C02", tier, "model_checking")
    cfgs = kernels.config_space(tier, common.seed())
    total = kernel_check.run_all("decode", cfgs)
    for e in total.errors[:5]:
        rep.harness_error(e)
    for u in total.unknown[:50]:
        rep.inconclusive_item(u)
    seen = {}
    replayed = 0
    for cand in total.candidates:
        key = classify(cand)
        sig = json.dumps(key, sort_keys=True)
        seen[sig] = seen.get(sig, 0) + 1
        if seen[sig] > 3:
            continue  # same class as an already replayed counterexample
        ok, observed, obs = replay(cand)
        replayed += 1
        if not ok:
            rep.harness_error("candidate did not reproduce natively: %s (%s) %r" % (cand.get("what"), observed, cand))
            continue
        if seen[sig] == 1 or rep.match_known(key) is None:
            rep.violation(key, "%s: %s [%s]" % (cand.get("what"), observed, kernels.cfg_from_dict(cand["cfg"])), cand)
    if total.controls_total and total.controls_fired != total.controls_total:
        rep.harness_error("negative controls fired %d/%d" % (total.controls_fired, total.controls_total))
    if total.witnesses == 0:
        rep.harness_error("no reachability witness (vacuous)")
    for s in total.samples:
        rep.sample(s)
    rep.coverage.update({
        "states": total.configs,
        "transitions": total.queries,
        "traces_validated_against_impl": replayed,
        "exhaustive": tier == "thorough",
        "configurations": total.configs,
        "functions_encoded": total.functions,
        "ir_instructions_executed": total.instrs,
        "queries": total.queries, "unsat": total.unsat, "reachability_witnesses": total.witnesses,
        "negative_controls_fired": "%d/%d" % (total.controls_fired, total.controls_total),
        "not_encoded": total.not_encoded[:20], "not_encoded_count": len(total.not_encoded),
        "solver_s": round(total.solver_s, 1), "compile_s": round(total.compile_s, 1),
        "candidates_classified": seen,
        "bounds": {"buffer_length": "0..%d bytes" % kernel_check.NMAX, "container_contents": "all 2^c",
                   "configurations": "quick: boundary-biased + seeded sample; thorough: all (type, container 8..64, offset, width, LE/BE/Null) with alignment variants rotated, all byte-oriented fields under all alignment variants",
                   "outside": "non-x86-64 targets; gcc's code generation"},
        "explanation": "states = configurations (type, width, container, offset, byte order, alignment); transitions = solver queries, each over all container contents and buffer lengths",
    })
    rep.assumptions += ["clang 14 -O2 LLVM IR is the implementation verified", "buffer base aligned as the ContiguousBuffer template promises",
                        "LLVM semantics as implemented in vf/ll2smt.py", "reference decode written from doc/language-reference.md (DESIGN.md A.1)"]
    if total.not_encoded:
        rep.inconclusive_item("%d configurations not encoded (first: %s)" % (len(total.not_encoded), total.not_encoded[0]))
    return rep.finish()


def replay_file(path):
    with open(path) as f:
        obj = json.load(f)
    ok, observed, _ = replay(obj["replay"])
    print("replay %s: %s -> %s" % (path, "REPRODUCED" if ok else "did not reproduce", observed))
    if ok:
        print("VIOLATION property=C02 replay=%s" % path)
    return 1 if ok else 0
