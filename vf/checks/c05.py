"""C05 -- inferred integer bounds and alignments are sound, and tight where
documented.

Layer (a): one inductive step per operator.  The real transfer functions of
compiler/front_end/expression_bounds.py are executed by pysym on real
ir_data.Expression nodes whose operand annotations are symbolic; z3 decides
soundness / invariant / tightness for every operand annotation and every
operand value.

Layer (b): the 64-bit gate (constraints._integer_bounds_errors*,
header_generator._cpp_integer_type_for_range) with unbounded symbolic bounds.

Layer (c): whole programs of the corpus (vf/checks/c05c.py).
"""

import itertools
import math
import multiprocessing
import os
import sys
import time
import traceback

import z3

from vf import common
from vf import pysym
from vf.pysym import SymInt, SymIntStr, SymChoiceStr

from compiler.front_end import expression_bounds as eb
from compiler.front_end import constraints
from compiler.util import ir_data, ir_util
from compiler.back_end.cpp import header_generator

FM = ir_data.FunctionMapping

INSTRUMENTED = (eb, ir_util, constraints, header_generator)


# ----------------------------------------------------------------------
# symbolic gcd with one concrete argument
# ----------------------------------------------------------------------


def sym_gcd(a, b):
    a_s, b_s = isinstance(a, SymInt), isinstance(b, SymInt)
    if not a_s and not b_s:
        return math.gcd(a, b)
    if a_s and b_s:
        raise pysym.HarnessGap("gcd of two symbolic integers")
    if a_s:
        a, b = b, a
    m = abs(a)
    if m == 0:
        return abs(b)
    c = pysym.ctx()
    for r in range(m - 1):
        if c.fork(b.t % m == r):
            return math.gcd(m, r)
    return math.gcd(m, m - 1)


# ----------------------------------------------------------------------
# Abstract operands
# ----------------------------------------------------------------------


class Operand:
    """One abstract operand (min, max, modulus, modular_value) with symbolic
    bounds, and a symbolic member value `x` of its concretisation."""

    def __init__(self, c, name, kind, m=None, r=None):
        self.name, self.kind, self.m, self.r = name, kind, m, r
        self.x = z3.Int(name + "_x")
        it = ir_data.IntegerType()
        if kind == "const":
            self.c = z3.Int(name + "_c")
            v = SymIntStr(SymInt(self.c))
            it.modulus = "infinity"
            it.modular_value = v
            it.minimum_value = v
            it.maximum_value = v
            self.lo_inf = z3.BoolVal(False)
            self.hi_inf = z3.BoolVal(False)
            self.lo = self.hi = self.c
            self.member = self.x == self.c
        else:
            # bounds and the member are written as m*k + r (k fresh) rather
            # than constrained by `% m == r`: products of such forms expand
            # to polynomials whose residues z3 decides at once.
            def lin(suffix):
                k = z3.Int(name + suffix)
                return k if m == 1 else m * k + r

            self.lo, self.hi = lin("_klo"), lin("_khi")
            self.x = lin("_kx")
            self.lo_inf, self.hi_inf = z3.Bool(name + "_lo_inf"), z3.Bool(name + "_hi_inf")
            it.modulus = str(m)
            it.modular_value = str(r)
            it.minimum_value = SymChoiceStr(
                [(self.lo_inf, "-infinity"), (None, SymIntStr(SymInt(self.lo)))]
            )
            it.maximum_value = SymChoiceStr(
                [(self.hi_inf, "infinity"), (None, SymIntStr(SymInt(self.hi)))]
            )
            # representation invariant (what _assert_integer_constraints checks,
            # plus the documented 0 <= modular_value < modulus; congruence of
            # the bounds holds by construction)
            c.assume(z3.Or(self.lo_inf, self.hi_inf, self.lo < self.hi))
            self.member = z3.And(
                z3.Or(self.lo_inf, self.x >= self.lo),
                z3.Or(self.hi_inf, self.x <= self.hi),
            )
        self.type = it
        if kind == "const":
            self.expr = ir_data.Expression(
                constant=ir_data.NumericConstant(value=it.modular_value),
                type=ir_data.ExpressionType(integer=it),
            )
        else:
            self.expr = ir_data.Expression(
                builtin_reference=ir_data.Reference(
                    canonical_name=ir_data.CanonicalName(object_path=["$logical_value"])
                ),
                type=ir_data.ExpressionType(integer=it),
            )

    def describe(self, model):
        if self.kind == "const":
            return {"kind": "const", "value": pysym.model_int(model, self.c)}
        d = {"kind": "var", "modulus": self.m, "modular_value": self.r}
        d["min"] = (
            "-infinity"
            if z3.is_true(model.eval(self.lo_inf, model_completion=True))
            else pysym.model_int(model, self.lo)
        )
        d["max"] = (
            "infinity"
            if z3.is_true(model.eval(self.hi_inf, model_completion=True))
            else pysym.model_int(model, self.hi)
        )
        return d


def concrete_leaf(desc):
    it = ir_data.IntegerType()
    if desc["kind"] == "const":
        v = str(desc["value"])
        it.modulus, it.modular_value, it.minimum_value, it.maximum_value = "infinity", v, v, v
    else:
        it.modulus = str(desc["modulus"])
        it.modular_value = str(desc["modular_value"])
        it.minimum_value = str(desc["min"])
        it.maximum_value = str(desc["max"])
    if desc["kind"] == "const":
        return ir_data.Expression(constant=ir_data.NumericConstant(value=str(desc["value"])),
                                  type=ir_data.ExpressionType(integer=it))
    return ir_data.Expression(
        builtin_reference=ir_data.Reference(
            canonical_name=ir_data.CanonicalName(object_path=["$logical_value"])
        ),
        type=ir_data.ExpressionType(integer=it),
    )


def bool_leaf(value):
    e = ir_data.Expression(
        builtin_reference=ir_data.Reference(
            canonical_name=ir_data.CanonicalName(object_path=["$logical_value"])
        ),
        type=ir_data.ExpressionType(boolean=ir_data.BooleanType()),
    )
    if value is not None:
        e.type.boolean.value = value
    return e


# ----------------------------------------------------------------------
# Reading a result annotation back into z3
# ----------------------------------------------------------------------


class ResBound:
    def __init__(self, s):
        if isinstance(s, SymChoiceStr):
            s = s.resolve()
        self.raw = s
        self.neg_inf = self.pos_inf = False
        self.t = None
        if isinstance(s, SymIntStr):
            self.t = s.sym.t
        elif s == "infinity":
            self.pos_inf = True
        elif s == "-infinity":
            self.neg_inf = True
        else:
            self.t = z3.IntVal(int(s))

    @property
    def finite(self):
        return self.t is not None


class ResAnn:
    def __init__(self, it):
        self.lo = ResBound(it.minimum_value)
        self.hi = ResBound(it.maximum_value)
        m = it.modulus
        if isinstance(m, SymChoiceStr):
            m = m.resolve()
        self.const = (not isinstance(m, SymIntStr)) and m == "infinity"
        self.m = None if self.const else (m.sym.t if isinstance(m, SymIntStr) else z3.IntVal(int(m)))
        mv = it.modular_value
        self.mv = ResBound(mv)

    def contains(self, z):
        parts = []
        if self.lo.pos_inf or self.hi.neg_inf:
            return z3.BoolVal(False)
        if self.lo.finite:
            parts.append(z >= self.lo.t)
        if self.hi.finite:
            parts.append(z <= self.hi.t)
        if self.const:
            if not self.mv.finite:
                return z3.BoolVal(False)
            parts.append(z == self.mv.t)
        else:
            parts.append(pysym.divmod_terms(z, self.m)[1] == self.mv.t)
        return z3.And(*parts) if parts else z3.BoolVal(True)

    def invariant(self):
        if self.const:
            return z3.BoolVal(True)
        return z3.And(self.m > 0, self.mv.t >= 0, self.mv.t < self.m)


# ----------------------------------------------------------------------
# Oracles (from mathematics / doc, not from the code)
# ----------------------------------------------------------------------


def _or(*a):
    a = [x for x in a if x is not None]
    return z3.Or(*a) if a else z3.BoolVal(False)


def sup_spec(op, A, B):
    """Returns (unbounded_above: z3 Bool sufficient condition,
                witnesses: [(valid Bool, value term)]) for sup of op over
    gamma(A) x gamma(B)."""
    T, F = z3.BoolVal(True), z3.BoolVal(False)
    a_pos = z3.Or(A.hi_inf, A.hi > 0)
    a_neg = z3.Or(A.lo_inf, A.lo < 0)
    b_pos = z3.Or(B.hi_inf, B.hi > 0)
    b_neg = z3.Or(B.lo_inf, B.lo < 0)
    fin = lambda inf: z3.Not(inf)
    if op == "+":
        return z3.Or(A.hi_inf, B.hi_inf), [(z3.And(fin(A.hi_inf), fin(B.hi_inf)), A.hi + B.hi)]
    if op == "-":
        return z3.Or(A.hi_inf, B.lo_inf), [(z3.And(fin(A.hi_inf), fin(B.lo_inf)), A.hi - B.lo)]
    if op == "*":
        unb = z3.Or(
            z3.And(A.hi_inf, b_pos), z3.And(A.lo_inf, b_neg),
            z3.And(B.hi_inf, a_pos), z3.And(B.lo_inf, a_neg),
        )
        w = []
        for (ai, av) in ((A.lo_inf, A.lo), (A.hi_inf, A.hi)):
            for (bi, bv) in ((B.lo_inf, B.lo), (B.hi_inf, B.hi)):
                w.append((z3.And(fin(ai), fin(bi)), av * bv))
        # 0 is attained when 0 is a member of one side (other side non-empty)
        zero_a = z3.Or(z3.And(fin(A.lo_inf), A.lo == 0), z3.And(fin(A.hi_inf), A.hi == 0))
        zero_b = z3.Or(z3.And(fin(B.lo_inf), B.lo == 0), z3.And(fin(B.hi_inf), B.hi == 0))
        w.append((z3.Or(zero_a, zero_b), z3.IntVal(0)))
        return unb, w
    if op == "?:":
        return z3.Or(A.hi_inf, B.hi_inf), [(fin(A.hi_inf), A.hi), (fin(B.hi_inf), B.hi)]
    raise AssertionError(op)


def inf_spec(op, A, B):
    T, F = z3.BoolVal(True), z3.BoolVal(False)
    fin = lambda inf: z3.Not(inf)
    a_pos = z3.Or(A.hi_inf, A.hi > 0)
    a_neg = z3.Or(A.lo_inf, A.lo < 0)
    b_pos = z3.Or(B.hi_inf, B.hi > 0)
    b_neg = z3.Or(B.lo_inf, B.lo < 0)
    if op == "+":
        return z3.Or(A.lo_inf, B.lo_inf), [(z3.And(fin(A.lo_inf), fin(B.lo_inf)), A.lo + B.lo)]
    if op == "-":
        return z3.Or(A.lo_inf, B.hi_inf), [(z3.And(fin(A.lo_inf), fin(B.hi_inf)), A.lo - B.hi)]
    if op == "*":
        unb = z3.Or(
            z3.And(A.hi_inf, b_neg), z3.And(A.lo_inf, b_pos),
            z3.And(B.hi_inf, a_neg), z3.And(B.lo_inf, a_pos),
        )
        _, w = sup_spec("*", A, B)
        return unb, w
    if op == "?:":
        return z3.Or(A.lo_inf, B.lo_inf), [(fin(A.lo_inf), A.lo), (fin(B.lo_inf), B.lo)]
    raise AssertionError(op)


OPS = {
    "+": (FM.ADDITION, lambda x, y: x + y),
    "-": (FM.SUBTRACTION, lambda x, y: x - y),
    "*": (FM.MULTIPLICATION, lambda x, y: x * y),
}
CMPS = {
    "==": (FM.EQUALITY, lambda x, y: x == y),
    "!=": (FM.INEQUALITY, lambda x, y: x != y),
    "<": (FM.LESS, lambda x, y: x < y),
    "<=": (FM.LESS_OR_EQUAL, lambda x, y: x <= y),
    ">": (FM.GREATER, lambda x, y: x > y),
    ">=": (FM.GREATER_OR_EQUAL, lambda x, y: x >= y),
}


def fn_node(fn, args, kind="integer"):
    t = (
        ir_data.ExpressionType(integer=ir_data.IntegerType())
        if kind == "integer"
        else ir_data.ExpressionType(boolean=ir_data.BooleanType())
    )
    return ir_data.Expression(function=ir_data.Function(function=fn, args=list(args)), type=t)


# ----------------------------------------------------------------------
# Task execution
# ----------------------------------------------------------------------


class TaskResult:
    def __init__(self, task):
        self.task = task
        self.obligations = 0
        self.discharged = 0
        self.inconclusive = []
        self.candidates = []  # dicts for replay
        self.witnesses = 0
        self.stats = pysym.Stats()
        self.sample = None
        self.error = None
        self.complete = True


class Obl:
    """Discharges named obligations on the current path."""

    def __init__(self, res, c, describe):
        self.res, self.c, self.describe = res, c, describe

    def prove(self, name, formula, extra=None):
        self.res.obligations += 1
        r, model = self.c.prove(formula)
        if r == "unsat":
            self.res.discharged += 1
        elif r == "sat":
            d = self.describe(model)
            d["obligation"] = name
            if extra:
                d.update(extra(model))
            self.res.candidates.append(d)
        else:
            self.res.inconclusive.append("%s: %s: solver unknown" % (self.res.task, name))

    def crashed(self, exc):
        """An exception escaped the code under test on this path."""
        self.res.obligations += 1
        model = self.c.witness()
        if model is None:
            if self.c.maybe:
                self.res.inconclusive.append(
                    "%s: exception %r on a path of unknown feasibility" % (self.res.task, exc))
            else:
                self.res.discharged += 1  # path infeasible after all
            return
        d = self.describe(model)
        d["obligation"] = "no exception"
        d["exception"] = "%s: %s" % (type(exc).__name__, exc)
        self.res.candidates.append(d)


def _linearise(x_term, op, name):
    """x = m*k + r with k fresh: callers use the linear form in products."""
    k = z3.Int(name + "_k")
    return k


def run_binary(task):
    """task = ('bin', opname, (kindA, mA, rA), (kindB, mB, rB))"""
    _, opname, sa, sb = task
    res = TaskResult(task)
    fn, sem = (OPS.get(opname) or (FM.CHOICE, None))[0], (OPS.get(opname) or (None, None))[1]

    holder = {}

    def body(c):
        A = Operand(c, "a", *sa)
        B = Operand(c, "b", *sb)
        holder["A"], holder["B"] = A, B
        c.assume(A.member)
        c.assume(B.member)
        if opname == "?:":
            holder["sel"] = z3.Bool("sel")
            e = fn_node(FM.CHOICE, [bool_leaf(None), A.expr, B.expr])
        else:
            e = fn_node(fn, [A.expr, B.expr])
        eb.compute_constraints_of_expression(e, None)
        return e

    def on_path(pr):
        c = pr.ctx
        A, B = holder["A"], holder["B"]

        def describe(model):
            d = {"op": opname, "a": A.describe(model), "b": B.describe(model),
                 "x": pysym.model_int(model, A.x), "y": pysym.model_int(model, B.x)}
            if opname == "?:":
                d["sel"] = bool(z3.is_true(model.eval(holder["sel"], model_completion=True)))
            return d

        ob = Obl(res, c, describe)
        if pr.kind == "raise":
            ob.crashed(pr.exc)
            return
        ann = ResAnn(pr.value.type.integer)
        # the value of the expression, by cases (kept free of if-then-else:
        # one obligation per case of the selector)
        if opname == "?:":
            cases = [("sel", holder["sel"], A.x), ("!sel", z3.Not(holder["sel"]), B.x)]
        else:
            cases = [("", z3.BoolVal(True), sem(A.x, B.x))]
        for tag, guard, z in cases:
            # soundness: interval on the true (non-linear) term
            iv = []
            if ann.lo.finite:
                iv.append(z >= ann.lo.t)
            if ann.hi.finite:
                iv.append(z <= ann.hi.t)
            if ann.lo.pos_inf or ann.hi.neg_inf:
                iv.append(z3.BoolVal(False))
            ob.prove("sound:interval" + tag, z3.Implies(guard, z3.And(*iv) if iv else z3.BoolVal(True)))
            # soundness: congruence
            ob.prove("sound:congruence" + tag, z3.Implies(guard, congruence_obligation(opname, A, B, ann, z)))
        ob.prove("result:invariant", ann.invariant())
        # tightness
        for side, spec, rb in (("max", sup_spec, ann.hi), ("min", inf_spec, ann.lo)):
            unb, wit = spec(opname, A, B)
            if rb.finite:
                ob.prove("tight:" + side, z3.Or(*[z3.And(v, t == rb.t) for v, t in wit]))
            else:
                ob.prove("tight:" + side + ":unbounded", unb)
        if res.sample is None:
            res.sample = {"task": repr(task), "path_decisions": len(c.decisions),
                          "result": {"min": repr(ann.lo.raw), "max": repr(ann.hi.raw),
                                     "modulus": "infinity" if ann.const else str(ann.m),
                                     "modular_value": repr(ann.mv.raw)}}
        res.witnesses += 1

    _explore(res, body, on_path)
    return res


def congruence_obligation(opname, A, B, ann, z):
    """z in the congruence class of the result annotation.  Operand members
    are the linear forms m*k + r, so products are polynomials in the k's."""
    if ann.const:
        if not ann.mv.finite:
            return z3.BoolVal(False)
        return z == ann.mv.t
    return pysym.divmod_terms(z, ann.m)[1] == ann.mv.t


def _explore(res, body, on_path, max_paths=4000, timeout_ms=30000):
    try:
        with pysym.instrument(*INSTRUMENTED, extra={}):
            old = eb._math_gcd
            eb._math_gcd = sym_gcd
            try:
                _, complete = pysym.explore(body, on_path, max_paths=max_paths,
                                            timeout_ms=timeout_ms, stats=res.stats)
            finally:
                eb._math_gcd = old
        res.complete = complete
        if not complete:
            res.inconclusive.append("%s: path budget exhausted" % (res.task,))
    except pysym.HarnessGap as e:
        res.error = "HarnessGap: %s" % e
    except Exception as e:  # harness bug
        res.error = "".join(traceback.format_exception(type(e), e, e.__traceback__))[-1500:]


def run_max(task):
    """task = ('max', [shape, ...])  -- $max of 1..3 operands"""
    _, shapes = task
    res = TaskResult(task)
    holder = {}

    def body(c):
        ops = [Operand(c, "a%d" % i, *s) for i, s in enumerate(shapes)]
        holder["ops"] = ops
        for o in ops:
            c.assume(o.member)
        e = fn_node(FM.MAXIMUM, [o.expr for o in ops])
        eb.compute_constraints_of_expression(e, None)
        return e

    def on_path(pr):
        c = pr.ctx
        ops = holder["ops"]

        def describe(model):
            return {"op": "$max", "args": [o.describe(model) for o in ops],
                    "values": [pysym.model_int(model, o.x) for o in ops]}

        ob = Obl(res, c, describe)
        if pr.kind == "raise":
            ob.crashed(pr.exc)
            return
        ann = ResAnn(pr.value.type.integer)
        # $max(x_1..x_n) is x_i for an i with x_i >= every x_j: one
        # if-then-else-free obligation per i
        for i, o in enumerate(ops):
            is_max = z3.And(*[o.x >= p.x for p in ops if p is not o]) if len(ops) > 1 else z3.BoolVal(True)
            ob.prove("sound:arg%d" % i, z3.Implies(is_max, ann.contains(o.x)))
        ob.prove("result:invariant", ann.invariant())
        any_hi_inf = z3.Or(*[o.hi_inf for o in ops])
        all_lo_inf = z3.And(*[o.lo_inf for o in ops])
        if ann.hi.finite:
            ob.prove("tight:max", z3.Or(*[z3.And(z3.Not(o.hi_inf), o.hi == ann.hi.t) for o in ops]))
        else:
            ob.prove("tight:max:unbounded", any_hi_inf)
        if ann.lo.finite:
            # attained with every argument at its minimum (arguments with
            # infinite minimum taken small enough)
            ob.prove("tight:min", z3.And(
                z3.Or(*[z3.And(z3.Not(o.lo_inf), o.lo == ann.lo.t) for o in ops]),
                *[z3.Or(o.lo_inf, o.lo <= ann.lo.t) for o in ops]))
        else:
            ob.prove("tight:min:unbounded", all_lo_inf)
        if res.sample is None:
            res.sample = {"task": repr(task), "result_modulus": "infinity" if ann.const else str(ann.m)}
        res.witnesses += 1

    _explore(res, body, on_path)
    return res


def run_choice_const(task):
    """?: with a constant condition must copy the selected side exactly."""
    _, cond, sa, sb = task
    res = TaskResult(task)
    holder = {}

    def body(c):
        A = Operand(c, "a", *sa)
        B = Operand(c, "b", *sb)
        holder["A"], holder["B"] = A, B
        c.assume(A.member)
        c.assume(B.member)
        e = fn_node(FM.CHOICE, [bool_leaf(cond), A.expr, B.expr])
        eb.compute_constraints_of_expression(e, None)
        return e

    def on_path(pr):
        c = pr.ctx
        A, B = holder["A"], holder["B"]

        def describe(model):
            return {"op": "?:const", "cond": cond, "a": A.describe(model), "b": B.describe(model),
                    "x": pysym.model_int(model, A.x), "y": pysym.model_int(model, B.x)}

        ob = Obl(res, c, describe)
        if pr.kind == "raise":
            ob.crashed(pr.exc)
            return
        ann = ResAnn(pr.value.type.integer)
        S = A if cond else B
        ob.prove("sound", ann.contains(S.x))
        if ann.hi.finite:
            ob.prove("tight:max", z3.And(z3.Not(S.hi_inf), S.hi == ann.hi.t))
        else:
            ob.prove("tight:max:unbounded", S.hi_inf)
        if ann.lo.finite:
            ob.prove("tight:min", z3.And(z3.Not(S.lo_inf), S.lo == ann.lo.t))
        else:
            ob.prove("tight:min:unbounded", S.lo_inf)
        res.witnesses += 1
        if res.sample is None:
            res.sample = {"task": repr(task)}

    _explore(res, body, on_path)
    return res


def run_bound_fn(task):
    """$upper_bound / $lower_bound of an operand."""
    _, which, sa = task
    res = TaskResult(task)
    holder = {}

    def body(c):
        A = Operand(c, "a", *sa)
        holder["A"] = A
        c.assume(A.member)
        e = fn_node(FM.UPPER_BOUND if which == "upper" else FM.LOWER_BOUND, [A.expr])
        eb.compute_constraints_of_expression(e, None)
        return e

    def on_path(pr):
        c = pr.ctx
        A = holder["A"]

        def describe(model):
            return {"op": "$%s_bound" % which, "a": A.describe(model), "x": pysym.model_int(model, A.x)}

        ob = Obl(res, c, describe)
        if pr.kind == "raise":
            ob.crashed(pr.exc)
            return
        it = pr.value.type.integer
        ann = ResAnn(it)
        inf = A.hi_inf if which == "upper" else A.lo_inf
        edge = A.hi if which == "upper" else A.lo
        rb = ann.hi if which == "upper" else ann.lo
        if rb.finite:
            # a finite constant: must be a true, attained bound and the
            # expression must be marked constant with that value
            ob.prove("bound:true", (A.x <= rb.t) if which == "upper" else (A.x >= rb.t))
            ob.prove("bound:attained", z3.And(z3.Not(inf), edge == rb.t))
            ob.prove("bound:constant", z3.And(z3.BoolVal(ann.const), ann.mv.t == rb.t,
                                              ann.lo.t == rb.t, ann.hi.t == rb.t)
                     if (ann.mv.finite and ann.lo.finite and ann.hi.finite) else z3.BoolVal(False))
        else:
            ob.prove("bound:unbounded", inf)
        res.witnesses += 1
        if res.sample is None:
            res.sample = {"task": repr(task)}

    _explore(res, body, on_path)
    return res


def run_compare(task):
    """Constant folding of comparisons: ('cmp', opname, kindA, kindB)."""
    _, opname, sa, sb = task
    res = TaskResult(task)
    holder = {}
    fn, sem = CMPS[opname]

    def body(c):
        A = Operand(c, "a", *sa)
        B = Operand(c, "b", *sb)
        holder["A"], holder["B"] = A, B
        c.assume(A.member)
        c.assume(B.member)
        e = fn_node(fn, [A.expr, B.expr], kind="boolean")
        eb.compute_constraints_of_expression(e, None)
        return e

    def on_path(pr):
        c = pr.ctx
        A, B = holder["A"], holder["B"]

        def describe(model):
            return {"op": opname, "a": A.describe(model), "b": B.describe(model),
                    "x": pysym.model_int(model, A.x), "y": pysym.model_int(model, B.x)}

        ob = Obl(res, c, describe)
        if pr.kind == "raise":
            ob.crashed(pr.exc)
            return
        bt = pr.value.type.boolean
        truth = sem(A.x, B.x)
        if bt.has_field("value"):
            v = bt.value
            if not isinstance(v, bool):
                res.candidates.append({"obligation": "boolean value is a bool", "op": opname,
                                       **describe(c.witness())})
                return
            ob.prove("const:sound", truth if v else z3.Not(truth))
        else:
            # not treated as constant: fine unless both operands are constants
            ob.prove("const:folded", z3.BoolVal(not (sa[0] == "const" and sb[0] == "const")))
        res.witnesses += 1
        if res.sample is None:
            res.sample = {"task": repr(task)}

    _explore(res, body, on_path)
    return res


def run_constant_value(task):
    """ir_util.constant_value on a function node over constant leaves."""
    _, opname, nargs = task
    res = TaskResult(task)
    holder = {}
    table = dict(OPS)
    table.update(CMPS)
    table["$max"] = (FM.MAXIMUM, None)
    table["?:"] = (FM.CHOICE, None)
    fn = table[opname][0]

    def body(c):
        xs = [z3.Int("v%d" % i) for i in range(nargs)]
        holder["xs"] = xs
        leaves = [
            ir_data.Expression(constant=ir_data.NumericConstant(value=SymIntStr(SymInt(x))),
                               type=ir_data.ExpressionType(integer=ir_data.IntegerType()))
            for x in xs
        ]
        if opname == "?:":
            holder["sel"] = z3.Bool("sel")
            cond = c.fork(holder["sel"])
            leaves = [ir_data.Expression(boolean_constant=ir_data.BooleanConstant(value=cond),
                                         type=ir_data.ExpressionType(boolean=ir_data.BooleanType()))] + leaves
        e = fn_node(fn, leaves)
        return ir_util.constant_value(e)

    def on_path(pr):
        c = pr.ctx
        xs = holder["xs"]

        def describe(model):
            d = {"op": "constant_value:" + opname, "values": [pysym.model_int(model, x) for x in xs]}
            if opname == "?:":
                d["sel"] = bool(z3.is_true(model.eval(holder["sel"], model_completion=True)))
            return d

        ob = Obl(res, c, describe)
        if pr.kind == "raise":
            ob.crashed(pr.exc)
            return
        v = pr.value
        if opname in OPS:
            want = OPS[opname][1](*xs)
        elif opname in CMPS:
            want = CMPS[opname][1](*xs)
        elif opname == "$max":
            want = xs[0]
            for x in xs[1:]:
                want = z3.If(want >= x, want, x)
        else:
            want = z3.If(holder["sel"], xs[0], xs[1])
        if isinstance(v, bool):
            ob.prove("value", want if v else z3.Not(want))
        elif isinstance(v, SymInt):
            ob.prove("value", v.t == want)
        elif isinstance(v, int):
            ob.prove("value", want == v)
        else:
            ob.prove("value", z3.BoolVal(False))
        res.witnesses += 1
        if res.sample is None:
            res.sample = {"task": repr(task)}

    _explore(res, body, on_path)
    return res


# ---- leaf rule ---------------------------------------------------------


def run_leaf(task):
    """_set_integer_constraints_from_physical_type for ('leaf', type, size)."""
    _, tname, size = task
    res = TaskResult(task)
    holder = {}

    def body(c):
        e = ir_data.Expression(type=ir_data.ExpressionType(integer=ir_data.IntegerType()))
        # what _compute_constraints_of_field_reference sets before the call
        e.type.integer.modulus = "1"
        e.type.integer.modular_value = "0"
        pt = ir_data.Type(atomic_type=ir_data.AtomicType(reference=ir_data.Reference(
            canonical_name=ir_data.CanonicalName(module_file="", object_path=[tname]))))
        sz = z3.Int("size")
        c.assume(sz == size)
        holder["sz"] = sz
        eb._set_integer_constraints_from_physical_type(e, pt, SymInt(sz))
        eb._assert_integer_constraints(e)
        return e

    def on_path(pr):
        c = pr.ctx
        x = z3.Int("x")

        def describe(model):
            return {"op": "leaf", "type": tname, "size": size, "x": pysym.model_int(model, x)}

        ob = Obl(res, c, describe)
        if pr.kind == "raise":
            ob.crashed(pr.exc)
            return
        ann = ResAnn(pr.value.type.integer)
        # the set of values a field of this type and width can read (A.1)
        if tname == "UInt":
            bits = z3.BitVec("bits", size)
            val = z3.BV2Int(bits, is_signed=False)
            okp = z3.BoolVal(True)
        elif tname == "Int":
            bits = z3.BitVec("bits", size)
            val = z3.BV2Int(bits, is_signed=True)
            okp = z3.BoolVal(True)
        else:
            nn = (size + 3) // 4
            nibs = [z3.Int("nib%d" % i) for i in range(nn)]
            cons = []
            for i, nb in enumerate(nibs):
                top = 9 if (i < size // 4) else min(9, 2 ** (size % 4) - 1)
                cons.append(z3.And(nb >= 0, nb <= top))
            okp = z3.And(*cons)
            val = z3.Sum([nb * (10**i) for i, nb in enumerate(nibs)]) if nibs else z3.IntVal(0)
        ob.prove("leaf:sound", z3.Implies(z3.And(okp, x == val), ann.contains(x)))
        # attained: exhibit members equal to the bounds
        for side, rb in (("min", ann.lo), ("max", ann.hi)):
            res.obligations += 1
            if not rb.finite:
                res.candidates.append({"obligation": "leaf:tight:" + side, **describe(c.witness())})
                continue
            m = c.witness(z3.And(okp, x == val, x == rb.t))
            if m is not None:
                res.discharged += 1
            else:
                res.candidates.append({"obligation": "leaf:tight:" + side, "op": "leaf",
                                       "type": tname, "size": size, "x": 0})
        res.witnesses += 1
        if res.sample is None:
            res.sample = {"task": repr(task), "min": repr(ann.lo.raw), "max": repr(ann.hi.raw)}

    _explore(res, body, on_path)
    return res


# ---- layer (b): the 64-bit gate ----------------------------------------


def run_gate_bounds(task):
    """constraints._integer_bounds_errors with symbolic bounds."""
    res = TaskResult(task)
    holder = {}

    def body(c):
        lo, hi = z3.Int("lo"), z3.Int("hi")
        lo_inf, hi_inf = z3.Bool("lo_inf"), z3.Bool("hi_inf")
        holder.update(lo=lo, hi=hi, lo_inf=lo_inf, hi_inf=hi_inf)
        c.assume(z3.Or(lo_inf, hi_inf, lo <= hi))
        it = ir_data.IntegerType()
        it.minimum_value = SymChoiceStr([(lo_inf, "-infinity"), (None, SymIntStr(SymInt(lo)))])
        it.maximum_value = SymChoiceStr([(hi_inf, "infinity"), (None, SymIntStr(SymInt(hi)))])
        return constraints._integer_bounds_errors(it, "expression", "f.emb", None)

    def on_path(pr):
        c = pr.ctx
        h = holder

        def describe(model):
            return {"op": "gate:bounds",
                    "min": "-infinity" if z3.is_true(model.eval(h["lo_inf"], model_completion=True)) else pysym.model_int(model, h["lo"]),
                    "max": "infinity" if z3.is_true(model.eval(h["hi_inf"], model_completion=True)) else pysym.model_int(model, h["hi"])}

        ob = Obl(res, c, describe)
        if pr.kind == "raise":
            ob.crashed(pr.exc)
            return
        fits = z3.And(z3.Not(h["lo_inf"]), z3.Not(h["hi_inf"]),
                      z3.Or(z3.And(h["lo"] >= -(2**63), h["hi"] <= 2**63 - 1),
                            z3.And(h["lo"] >= 0, h["hi"] <= 2**64 - 1)))
        rejected = bool(pr.value)
        ob.prove("gate:iff", z3.Not(fits) if rejected else fits)
        res.witnesses += 1
        if res.sample is None:
            res.sample = {"task": repr(task)}

    _explore(res, body, on_path)
    return res


def run_gate_expression(task):
    """constraints._integer_bounds_errors_for_expression on one operator node
    with symbolic ranges on the result and its two integer arguments."""
    _, nargs = task[0], task[1]
    boolean_result = len(task) > 2 and task[2] == "cmp"
    res = TaskResult(task)
    holder = {}

    def body(c):
        rng = []
        nodes = []
        for i in range(nargs + 1):
            lo, hi = z3.Int("lo%d" % i), z3.Int("hi%d" % i)
            c.assume(lo < hi)
            rng.append((lo, hi))
            it = ir_data.IntegerType(modulus="1", modular_value="0")
            it.minimum_value = SymIntStr(SymInt(lo))
            it.maximum_value = SymIntStr(SymInt(hi))
            nodes.append(it)
        holder["rng"] = rng
        args = [ir_data.Expression(
            builtin_reference=ir_data.Reference(canonical_name=ir_data.CanonicalName(object_path=["$logical_value"])),
            type=ir_data.ExpressionType(integer=it)) for it in nodes[1:]]
        if boolean_result:
            # a comparison: the result is a boolean, only the operands have integer ranges
            rng = rng[1:]
            holder["rng"] = rng
            e = ir_data.Expression(
                function=ir_data.Function(function=FM.LESS, args=args, function_name=ir_data.Word(text="<")),
                type=ir_data.ExpressionType(boolean=ir_data.BooleanType()))
        else:
            e = ir_data.Expression(
                function=ir_data.Function(function=FM.ADDITION, args=args,
                                          function_name=ir_data.Word(text="+")),
                type=ir_data.ExpressionType(integer=nodes[0]))
        return constraints._integer_bounds_errors_for_expression(e, "f.emb")

    def on_path(pr):
        c = pr.ctx
        rng = holder["rng"]

        def describe(model):
            return {"op": "gate:expression", "boolean_result": boolean_result,
                    "ranges": [[pysym.model_int(model, lo), pysym.model_int(model, hi)] for lo, hi in holder["rng"]]}

        ob = Obl(res, c, describe)
        if pr.kind == "raise":
            ob.crashed(pr.exc)
            return
        s64 = z3.And(*[z3.And(lo >= -(2**63), hi <= 2**63 - 1) for lo, hi in rng])
        u64 = z3.And(*[z3.And(lo >= 0, hi <= 2**64 - 1) for lo, hi in rng])
        ok = z3.Or(s64, u64)
        rejected = bool(pr.value)
        ob.prove("gate:iff", z3.Not(ok) if rejected else ok)
        res.witnesses += 1
        if res.sample is None:
            res.sample = {"task": repr(task)}

    _explore(res, body, on_path)
    return res


def run_cpp_type(task):
    """header_generator._cpp_integer_type_for_range with symbolic bounds."""
    res = TaskResult(task)
    holder = {}

    def body(c):
        lo, hi = z3.Int("lo"), z3.Int("hi")
        holder.update(lo=lo, hi=hi)
        c.assume(lo <= hi)
        return header_generator._cpp_integer_type_for_range(SymInt(lo), SymInt(hi))

    RANGES = {
        "::std::int32_t": (-(2**31), 2**31 - 1),
        "::std::uint32_t": (0, 2**32 - 1),
        "::std::int64_t": (-(2**63), 2**63 - 1),
        "::std::uint64_t": (0, 2**64 - 1),
    }

    def on_path(pr):
        c = pr.ctx
        lo, hi = holder["lo"], holder["hi"]

        def describe(model):
            return {"op": "cpp_type", "min": pysym.model_int(model, lo), "max": pysym.model_int(model, hi)}

        ob = Obl(res, c, describe)
        if pr.kind == "raise":
            ob.crashed(pr.exc)
            return
        t = pr.value
        fits_any = z3.Or(z3.And(lo >= -(2**63), hi <= 2**63 - 1), z3.And(lo >= 0, hi <= 2**64 - 1))
        if t is None:
            ob.prove("cpp_type:none_iff_no_64bit_type", z3.Not(fits_any))
        elif t in RANGES:
            tl, th = RANGES[t]
            ob.prove("cpp_type:contains_range", z3.And(lo >= tl, hi <= th))
        else:
            ob.prove("cpp_type:known_type", z3.BoolVal(False))
        res.witnesses += 1
        if res.sample is None:
            res.sample = {"task": repr(task)}

    _explore(res, body, on_path)
    return res


_CPP_RANGES = {
    "::std::int32_t": (-(2**31), 2**31 - 1),
    "::std::uint32_t": (0, 2**32 - 1),
    "::std::int64_t": (-(2**63), 2**63 - 1),
    "::std::uint64_t": (0, 2**64 - 1),
}

# (function, rendered name is not needed, number of integer args, result kind, leading boolean arg)
_INTERMEDIATE_SHAPES = {
    "add": (FM.ADDITION, "+", 2, "integer", False),
    "sub": (FM.SUBTRACTION, "-", 2, "integer", False),
    "mul": (FM.MULTIPLICATION, "*", 2, "integer", False),
    "max2": (FM.MAXIMUM, "$max", 2, "integer", False),
    "max3": (FM.MAXIMUM, "$max", 3, "integer", False),
    "less": (FM.LESS, "<", 2, "boolean", False),
    "eq": (FM.EQUALITY, "==", 2, "boolean", False),
    "choice": (FM.CHOICE, "?:", 2, "integer", True),
}


def _intermediate_expression(shape, ranges, wrap):
    """The operator node `shape` with the given (lo, hi) per integer position
    (result first when the result is an integer); wrap turns a bound into the
    IR's string."""
    fn, name, nargs, rkind, lead_bool = _INTERMEDIATE_SHAPES[shape]
    lv = lambda t: ir_data.Expression(
        builtin_reference=ir_data.Reference(canonical_name=ir_data.CanonicalName(object_path=["$logical_value"])), type=t)
    its = []
    for lo, hi in ranges:
        it = ir_data.IntegerType(modulus="1", modular_value="0")
        it.minimum_value = wrap(lo)
        it.maximum_value = wrap(hi)
        its.append(it)
    arg_its = its[1:] if rkind == "integer" else its
    args = [lv(ir_data.ExpressionType(integer=it)) for it in arg_its]
    if lead_bool:
        args = [lv(ir_data.ExpressionType(boolean=ir_data.BooleanType()))] + args
    rtype = ir_data.ExpressionType(integer=its[0]) if rkind == "integer" else ir_data.ExpressionType(boolean=ir_data.BooleanType())
    return ir_data.Expression(function=ir_data.Function(function=fn, args=args, function_name=ir_data.Word(text=name)), type=rtype)


def _parse_template_types(rendered):
    """IntermediateT, ResultT, [ArgT...] of `::emboss::support::Op</**/I, R, A...>(...)`."""
    inner = rendered[rendered.index("</**/") + 5:rendered.index(">(")]
    parts = [x.strip() for x in inner.split(",")]
    return parts[0], parts[1], parts[2:]


def run_intermediate(task):
    """header_generator._render_builtin_operation: the IntermediateT / ResultT /
    ArgT the back end picks for one operator node whose result and integer
    operands carry symbolic ranges.  Under the front end's 64-bit gate (one
    64-bit type holds the result and all operands) IntermediateT must hold the
    result range and every operand range -- the runtime evaluates the operator
    in IntermediateT -- and ResultT/ArgT must hold their own range."""
    shape = task[1]
    fn, name, nargs, rkind, lead_bool = _INTERMEDIATE_SHAPES[shape]
    npos = nargs + (1 if rkind == "integer" else 0)
    res = TaskResult(task)
    holder = {}

    def body(c):
        rng = []
        for i in range(npos):
            lo, hi = z3.Int("lo%d" % i), z3.Int("hi%d" % i)
            c.assume(lo < hi)
            rng.append((lo, hi))
        # the gate: one signed or one unsigned 64-bit type holds every position
        s64 = z3.And(*[z3.And(lo >= -(2**63), hi <= 2**63 - 1) for lo, hi in rng])
        u64 = z3.And(*[z3.And(lo >= 0, hi <= 2**64 - 1) for lo, hi in rng])
        c.assume(z3.Or(s64, u64))
        holder["rng"] = rng
        e = _intermediate_expression(shape, rng, lambda t: SymIntStr(SymInt(t)))
        return header_generator._render_builtin_operation(e, None, None, None)

    def on_path(pr):
        c = pr.ctx
        rng = holder["rng"]

        def describe(model):
            return {"op": "intermediate", "shape": shape,
                    "ranges": [[pysym.model_int(model, lo), pysym.model_int(model, hi)] for lo, hi in rng]}

        ob = Obl(res, c, describe)
        if pr.kind == "raise":
            ob.crashed(pr.exc)
            return
        it, rt, ats = _parse_template_types(str(pr.value))
        if it not in _CPP_RANGES:
            ob.prove("intermediate:is_a_64bit_integer_type", z3.BoolVal(False))
        else:
            tl, th = _CPP_RANGES[it]
            ob.prove("intermediate:holds_result_and_operands", z3.And(*[z3.And(lo >= tl, hi <= th) for lo, hi in rng]))
        own = ([rt] + ats[(1 if lead_bool else 0):]) if rkind == "integer" else ats
        for (lo, hi), t in zip(rng, own):
            if t not in _CPP_RANGES:
                ob.prove("intermediate:own_type_is_integer", z3.BoolVal(False))
            else:
                tl, th = _CPP_RANGES[t]
                ob.prove("intermediate:own_type_holds_range", z3.And(lo >= tl, hi <= th))
        res.witnesses += 1
        if res.sample is None:
            res.sample = {"task": repr(task), "rendered": str(pr.value)[:200]}

    _explore(res, body, on_path, max_paths=200000)
    return res


RUNNERS = {
    "bin": run_binary,
    "max": run_max,
    "choice_const": run_choice_const,
    "bound": run_bound_fn,
    "cmp": run_compare,
    "cv": run_constant_value,
    "leaf": run_leaf,
    "gate_bounds": run_gate_bounds,
    "gate_expr": run_gate_expression,
    "cpp_type": run_cpp_type,
    "intermediate": run_intermediate,
}


def run_task(task):
    z3.set_param("smt.random_seed", 0)
    t0 = time.time()
    try:
        r = RUNNERS[task[0]](task)
    except Exception as e:  # pylint: disable=broad-except
        r = TaskResult(task)
        r.error = "".join(traceback.format_exception(type(e), e, e.__traceback__))[-1500:]
    r.wall = time.time() - t0
    return r


# ----------------------------------------------------------------------
# Replay against the real code with plain values
# ----------------------------------------------------------------------


def _in_gamma(it, z):
    if it.minimum_value not in ("-infinity",):
        if it.minimum_value == "infinity" or z < int(it.minimum_value):
            return False
    if it.maximum_value not in ("infinity",):
        if it.maximum_value == "-infinity" or z > int(it.maximum_value):
            return False
    if it.modulus == "infinity":
        return z == int(it.modular_value)
    return z % int(it.modulus) == int(it.modular_value)


def replay(cand):
    """Returns (reproduced: bool, observed: str).  Uses the unmodified real
    functions on plain str/int values; no proxies."""
    op = cand.get("op")
    try:
        if op in OPS or op == "?:":
            a, b = concrete_leaf(cand["a"]), concrete_leaf(cand["b"])
            if op == "?:":
                e = fn_node(FM.CHOICE, [bool_leaf(None), a, b])
                z = cand["x"] if cand.get("sel") else cand["y"]
            else:
                e = fn_node(OPS[op][0], [a, b])
                z = {"+": cand["x"] + cand["y"], "-": cand["x"] - cand["y"], "*": cand["x"] * cand["y"]}[op]
            eb.compute_constraints_of_expression(e, None)
            it = e.type.integer
            obl = cand["obligation"]
            if obl.startswith("sound") or obl == "result:invariant":
                bad = not _in_gamma(it, z)
                if obl == "result:invariant" and it.modulus != "infinity":
                    bad = bad or not (0 <= int(it.modular_value) < int(it.modulus))
                return bad, "annotation %s does not contain %d" % (_ann(it), z) if bad else "contained"
            if obl.startswith("tight"):
                return _replay_tight(op, cand, it)
            return False, "exception did not reproduce"
        if op == "$max":
            args = [concrete_leaf(d) for d in cand["args"]]
            e = fn_node(FM.MAXIMUM, args)
            eb.compute_constraints_of_expression(e, None)
            z = max(cand["values"])
            bad = not _in_gamma(e.type.integer, z)
            if cand["obligation"].startswith("tight"):
                return _replay_tight_max(cand, e.type.integer)
            return bad, "annotation %s vs $max value %d" % (_ann(e.type.integer), z)
        if op == "?:const":
            a, b = concrete_leaf(cand["a"]), concrete_leaf(cand["b"])
            e = fn_node(FM.CHOICE, [bool_leaf(cand["cond"]), a, b])
            eb.compute_constraints_of_expression(e, None)
            z = cand["x"] if cand["cond"] else cand["y"]
            side = (a if cand["cond"] else b).type.integer
            it = e.type.integer
            bad = (not _in_gamma(it, z)) or (it.minimum_value, it.maximum_value) != (side.minimum_value, side.maximum_value)
            return bad, "annotation %s vs selected side %s" % (_ann(it), _ann(side))
        if op in ("$upper_bound", "$lower_bound"):
            a = concrete_leaf(cand["a"])
            e = fn_node(FM.UPPER_BOUND if op == "$upper_bound" else FM.LOWER_BOUND, [a])
            eb.compute_constraints_of_expression(e, None)
            it = e.type.integer
            want = a.type.integer.maximum_value if op == "$upper_bound" else a.type.integer.minimum_value
            bad = not (it.minimum_value == it.maximum_value == it.modular_value == want and it.modulus == "infinity")
            return bad, "annotation %s, operand bound %s" % (_ann(it), want)
        if op in CMPS:
            a, b = concrete_leaf(cand["a"]), concrete_leaf(cand["b"])
            e = fn_node(CMPS[op][0], [a, b], kind="boolean")
            eb.compute_constraints_of_expression(e, None)
            import operator as _o
            f = {"==": _o.eq, "!=": _o.ne, "<": _o.lt, "<=": _o.le, ">": _o.gt, ">=": _o.ge}[op]
            truth = f(cand["x"], cand["y"])
            if e.type.boolean.has_field("value"):
                bad = e.type.boolean.value is not truth
                return bad, "folded to %r, actual %r" % (e.type.boolean.value, truth)
            both_const = cand["a"]["kind"] == "const" and cand["b"]["kind"] == "const"
            return both_const, "not folded"
        if op and op.startswith("constant_value:"):
            o = op.split(":", 1)[1]
            table = dict(OPS); table.update(CMPS); table["$max"] = (FM.MAXIMUM,); table["?:"] = (FM.CHOICE,)
            leaves = [ir_data.Expression(constant=ir_data.NumericConstant(value=str(v)),
                                         type=ir_data.ExpressionType(integer=ir_data.IntegerType())) for v in cand["values"]]
            if o == "?:":
                leaves = [ir_data.Expression(boolean_constant=ir_data.BooleanConstant(value=cand["sel"]),
                                             type=ir_data.ExpressionType(boolean=ir_data.BooleanType()))] + leaves
            got = ir_util.constant_value(fn_node(table[o][0], leaves))
            import operator as _o
            vs = cand["values"]
            want = {"+": lambda: vs[0] + vs[1], "-": lambda: vs[0] - vs[1], "*": lambda: vs[0] * vs[1],
                    "==": lambda: vs[0] == vs[1], "!=": lambda: vs[0] != vs[1], "<": lambda: vs[0] < vs[1],
                    "<=": lambda: vs[0] <= vs[1], ">": lambda: vs[0] > vs[1], ">=": lambda: vs[0] >= vs[1],
                    "$max": lambda: max(vs), "?:": lambda: vs[0] if cand["sel"] else vs[1]}[o]()
            return got != want or type(got) is not type(want), "constant_value=%r, expected %r" % (got, want)
        if op == "leaf":
            e = ir_data.Expression(type=ir_data.ExpressionType(integer=ir_data.IntegerType(modulus="1", modular_value="0")))
            pt = ir_data.Type(atomic_type=ir_data.AtomicType(reference=ir_data.Reference(
                canonical_name=ir_data.CanonicalName(module_file="", object_path=[cand["type"]]))))
            eb._set_integer_constraints_from_physical_type(e, pt, cand["size"])
            it = e.type.integer
            w = cand["size"]
            lo, hi = {"UInt": (0, 2**w - 1), "Int": (-(2 ** (w - 1)), 2 ** (w - 1) - 1),
                      "Bcd": (0, int("9" * (w // 4) or "0") + (2 ** (w % 4) - 1) * 10 ** (w // 4))}[cand["type"]]
            bad = (it.minimum_value, it.maximum_value) != (str(lo), str(hi))
            return bad, "annotation %s, type range [%d,%d]" % (_ann(it), lo, hi)
        if op == "gate:bounds":
            it = ir_data.IntegerType(minimum_value=str(cand["min"]), maximum_value=str(cand["max"]))
            errs = constraints._integer_bounds_errors(it, "expression", "f.emb", None)
            fits = False
            if cand["min"] != "-infinity" and cand["max"] != "infinity":
                lo, hi = cand["min"], cand["max"]
                fits = (lo >= -(2**63) and hi <= 2**63 - 1) or (lo >= 0 and hi <= 2**64 - 1)
            return bool(errs) == fits, "errors=%d fits=%r" % (len(errs), fits)
        if op == "gate:expression":
            rs = cand["ranges"]
            its = [ir_data.IntegerType(modulus="1", modular_value="0", minimum_value=str(lo), maximum_value=str(hi)) for lo, hi in rs]
            mk = lambda it: ir_data.Expression(
                builtin_reference=ir_data.Reference(canonical_name=ir_data.CanonicalName(object_path=["$logical_value"])),
                type=ir_data.ExpressionType(integer=it))
            if cand.get("boolean_result"):
                e = ir_data.Expression(function=ir_data.Function(function=FM.LESS, args=[mk(it) for it in its], function_name=ir_data.Word(text="<")),
                                       type=ir_data.ExpressionType(boolean=ir_data.BooleanType()))
            else:
                e = ir_data.Expression(function=ir_data.Function(function=FM.ADDITION, args=[mk(it) for it in its[1:]], function_name=ir_data.Word(text="+")),
                                       type=ir_data.ExpressionType(integer=its[0]))
            errs = constraints._integer_bounds_errors_for_expression(e, "f.emb")
            s64 = all(lo >= -(2**63) and hi <= 2**63 - 1 for lo, hi in rs)
            u64 = all(lo >= 0 and hi <= 2**64 - 1 for lo, hi in rs)
            return bool(errs) == (s64 or u64), "errors=%d s64=%r u64=%r" % (len(errs), s64, u64)
        if op == "intermediate":
            rs = [tuple(r) for r in cand["ranges"]]
            shape = cand["shape"]
            fn, name, nargs, rkind, lead_bool = _INTERMEDIATE_SHAPES[shape]
            e = _intermediate_expression(shape, rs, str)
            rendered = header_generator._render_builtin_operation(e, None, None, None)
            it, rt, ats = _parse_template_types(rendered)
            tl, th = _CPP_RANGES.get(it, (1, 0))
            bad = [r for r in rs if not (tl <= r[0] and r[1] <= th)]
            own = ([rt] + ats[(1 if lead_bool else 0):]) if rkind == "integer" else ats
            for r, t in zip(rs, own):
                ol, oh = _CPP_RANGES.get(t, (1, 0))
                if not (ol <= r[0] and r[1] <= oh):
                    bad.append((t, r))
            return bool(bad), "IntermediateT=%s ResultT=%s ArgT=%s for ranges %s; not held: %s" % (it, rt, ats, rs, bad)
        if op == "cpp_type":
            t = header_generator._cpp_integer_type_for_range(cand["min"], cand["max"])
            R = {"::std::int32_t": (-(2**31), 2**31 - 1), "::std::uint32_t": (0, 2**32 - 1),
                 "::std::int64_t": (-(2**63), 2**63 - 1), "::std::uint64_t": (0, 2**64 - 1)}
            lo, hi = cand["min"], cand["max"]
            fits_any = (lo >= -(2**63) and hi <= 2**63 - 1) or (lo >= 0 and hi <= 2**64 - 1)
            if t is None:
                return fits_any, "None for [%d,%d]" % (lo, hi)
            tl, th = R.get(t, (1, 0))
            return not (tl <= lo and hi <= th), "%s for [%d,%d]" % (t, lo, hi)
    except Exception as e:  # the real code crashed on the concrete input
        if cand.get("obligation") == "no exception" or True:
            return True, "real code raised %s: %s" % (type(e).__name__, e)
    return False, "unknown candidate kind"


def _ann(it):
    return "(min=%s max=%s mod=%s rem=%s)" % (it.minimum_value, it.maximum_value, it.modulus, it.modular_value)


def _corner_values(desc):
    if desc["kind"] == "const":
        return [desc["value"]], False, False
    vals = [v for v in (desc["min"], desc["max"]) if not isinstance(v, str)]
    return vals, desc["min"] == "-infinity", desc["max"] == "infinity"


def _replay_tight(op, cand, it):
    """Tightness replay: the reported bound must be attained by some pair of
    members; checked by brute force over members near the corners."""
    f = {"+": lambda x, y: x + y, "-": lambda x, y: x - y, "*": lambda x, y: x * y}.get(op)
    side = "max" if "max" in cand["obligation"] else "min"
    rb = it.maximum_value if side == "max" else it.minimum_value

    def members(d):
        if d["kind"] == "const":
            return [d["value"]]
        m, r = d["modulus"], d["modular_value"]
        lo = d["min"] if not isinstance(d["min"], str) else None
        hi = d["max"] if not isinstance(d["max"], str) else None
        base = [v for v in (lo, hi) if v is not None] or [r]
        out = set()
        for b in base + [0]:
            for k in range(-6, 7):
                v = (b - (b - r) % m) + k * m
                if (lo is None or v >= lo) and (hi is None or v <= hi):
                    out.add(v)
        if lo is None:
            out.add((-(10**6)) - ((-(10**6)) - r) % m)
        if hi is None:
            out.add((10**6) + (r - 10**6) % m)
        return sorted(out)

    A, B = members(cand["a"]), members(cand["b"])
    if op == "?:":
        vals = A + B
    else:
        vals = [f(x, y) for x in A for y in B]
    if rb in ("infinity", "-infinity"):
        # claimed unbounded: reproduced if all probed values are bounded by the corners
        ext = max(vals) if side == "max" else min(vals)
        return abs(ext) < 10**5, "reported %s but probed extreme is %d" % (rb, ext)
    rbv = int(rb)
    attained = rbv in vals
    exceeded = (max(vals) > rbv) if side == "max" else (min(vals) < rbv)
    return (not attained) or exceeded, "bound %s=%d attained=%r exceeded=%r" % (side, rbv, attained, exceeded)


def _replay_tight_max(cand, it):
    import itertools as _it
    side = "max" if "max" in cand["obligation"] else "min"
    rb = it.maximum_value if side == "max" else it.minimum_value
    his = [d["max"] if d["kind"] == "var" else d["value"] for d in cand["args"]]
    los = [d["min"] if d["kind"] == "var" else d["value"] for d in cand["args"]]
    if side == "max":
        want = "infinity" if any(h == "infinity" for h in his) else str(max(his))
    else:
        fin = [l for l in los if l != "-infinity"]
        want = str(max(fin)) if fin else "-infinity"
    return rb != want, "reported %s=%s, attained extreme is %s" % (side, rb, want)


# ----------------------------------------------------------------------
# Task lists
# ----------------------------------------------------------------------


def var_shapes(M):
    return [("var", m, r) for m in range(1, M + 1) for r in range(m)]


def build_tasks(tier):
    M = 4 if tier == "quick" else 12
    M3 = 2 if tier == "quick" else 4
    const = ("const", None, None)
    vs = var_shapes(M)
    tasks = []
    for op in ("+", "-", "*", "?:"):
        tasks.append(("bin", op, const, const))
        for s in vs:
            tasks.append(("bin", op, const, s))
            tasks.append(("bin", op, s, const))
        for sa in vs:
            for sb in vs:
                tasks.append(("bin", op, sa, sb))
    shapes2 = [const] + vs
    for s in shapes2:
        tasks.append(("max", [s]))
        for cond in (True, False):
            tasks.append(("choice_const", cond, s, const))
            tasks.append(("choice_const", cond, const, s))
        tasks.append(("bound", "upper", s))
        tasks.append(("bound", "lower", s))
    for sa in shapes2:
        for sb in shapes2:
            tasks.append(("max", [sa, sb]))
    s3 = [const] + var_shapes(M3)
    for t in itertools.product(s3, repeat=3):
        nconst = sum(1 for x in t if x[0] == "const")
        if tier == "quick" and nconst == 2:
            continue  # symbolic modulus |c1-c2| folded with a concrete one: ~2 min each; thorough only
        tasks.append(("max", list(t)))
    v1 = ("var", 1, 0)
    v4 = ("var", 4, 3)
    for op in CMPS:
        for sa, sb in ((const, const), (const, v1), (v1, const), (v4, v4)):
            tasks.append(("cmp", op, sa, sb))
        tasks.append(("cv", op, 2))
    for op in OPS:
        tasks.append(("cv", op, 2))
    tasks.append(("cv", "$max", 1))
    tasks.append(("cv", "$max", 2))
    tasks.append(("cv", "$max", 3))
    tasks.append(("cv", "?:", 2))
    for tname in ("UInt", "Int", "Bcd"):
        for size in range(1, 65):
            tasks.append(("leaf", tname, size))
    tasks.append(("gate_bounds",))
    tasks.append(("gate_expr", 1))
    tasks.append(("gate_expr", 2))
    tasks.append(("gate_expr", 2, "cmp"))
    tasks.append(("cpp_type",))
    for shape in _INTERMEDIATE_SHAPES:
        if tier == "quick" and shape == "max3":
            continue  # ~50k paths; thorough only
        tasks.append(("intermediate", shape))
    # tasks whose modulus becomes symbolic (two constants) are the slow ones
    def weight(t):
        return -sum(1 for x in repr(t).split("'const'")[1:])

    tasks.sort(key=weight)
    return tasks, {"M": M, "M3": M3}


# ----------------------------------------------------------------------
# Negative controls: the same harness against a deliberately wrong oracle
# ----------------------------------------------------------------------


def negative_controls():
    """Runs a few harnesses with the implementation replaced by a subtly
    wrong variant (in a copy of the module function, never in /repo); each
    must yield a candidate.  Returns (fired, total)."""
    fired = total = 0
    # 1. additive: swapped rmin/rmax for subtraction
    orig = eb._sub

    def wrong_sub(a, b):
        return orig(a, b) if eb._is_infinite(a) or eb._is_infinite(b) else int(a) - int(b) + 1

    for patch_name, wrong, task in (
        ("_sub", wrong_sub, ("bin", "-", ("var", 2, 1), ("var", 4, 3))),
        ("_greatest_common_divisor", lambda a, b: 2 * eb_gcd(a, b) if eb_gcd(a, b) != "infinity" else "infinity",
         ("bin", "+", ("var", 2, 1), ("var", 4, 3))),
    ):
        total += 1
        saved = getattr(eb, patch_name)
        setattr(eb, patch_name, wrong)
        try:
            r = run_task(task)
        finally:
            setattr(eb, patch_name, saved)
        if r.candidates:
            fired += 1
    return fired, total


def eb_gcd(a, b):
    return _REAL_GCD(a, b)


_REAL_GCD = eb._greatest_common_divisor


# ----------------------------------------------------------------------


def main(tier):
    rep = common.Report("C05", tier, "proof")
    tasks, bounds = build_tasks(tier)
    t0 = time.time()
    total = pysym.Stats()
    obligations = discharged = 0
    witnesses = 0
    errors = []
    cands = []
    by_kind = {}
    slow = []
    with multiprocessing.Pool(common.ncpu()) as pool:
        for r in pool.imap_unordered(run_task, tasks, chunksize=1):
            total.add(r.stats)
            slow.append((round(r.wall, 1), repr(r.task)))
            obligations += r.obligations
            discharged += r.discharged
            witnesses += r.witnesses
            k = by_kind.setdefault(r.task[0], {"tasks": 0, "paths": 0, "obligations": 0})
            k["tasks"] += 1
            k["paths"] += r.stats.paths
            k["obligations"] += r.obligations
            if r.error:
                errors.append((r.task, r.error))
            for i in r.inconclusive:
                rep.inconclusive_item(i)
            cands.extend(r.candidates)
            if r.sample and (k["tasks"] <= 2):
                rep.sample(r.sample, cap=24)
    for task, err in errors[:5]:
        rep.harness_error("task %r: %s" % (task, err))
    # replay candidates against the unmodified real code
    nonrepro = 0
    seen = set()
    for cand in cands:
        ok, observed = replay(cand)
        if ok:
            key = {"op": cand.get("op"), "obligation": cand.get("obligation")}
            sig = repr(sorted(key.items()))
            if sig in seen:
                continue
            seen.add(sig)
            rep.violation(key, "C05 %s: %s" % (cand.get("obligation"), observed), cand)
        else:
            nonrepro += 1
            rep.harness_error("candidate did not reproduce: %r -> %s" % (cand, observed))
    fired, ntot = negative_controls()
    if fired != ntot:
        rep.harness_error("negative controls fired %d/%d" % (fired, ntot))
    from vf.checks import c05c
    layer_c = c05c.run(rep, tier)
    obligations += layer_c["obligations"]
    discharged += layer_c["discharged"]
    rep.coverage.update({
        "obligations": obligations,
        "discharged": discharged,
        "checker_cmd": "python3-vt /verif/check C05 --tier %s" % tier,
        "trusted_base": ["z3 %s (Int/NIA)" % z3.get_version_string(), "CPython 3.11 executing /repo modules",
                         "vf/pysym.py proxies (SymInt, SymIntStr, SymChoiceStr)", "oracles in vf/checks/c05.py (DESIGN.md A.3/A.4)"],
        "functions_encoded": [
            "expression_bounds.compute_constraints_of_expression", "expression_bounds._compute_constraints_of_additive_operator",
            "expression_bounds._compute_constraints_of_multiplicative_operator", "expression_bounds._compute_constraints_of_choice_operator",
            "expression_bounds._compute_constraints_of_maximum_function", "expression_bounds._compute_constraints_of_bound_function",
            "expression_bounds._compute_constant_value_of_comparison_operator", "expression_bounds._shared_modular_value",
            "expression_bounds._greatest_common_divisor", "expression_bounds._assert_integer_constraints",
            "expression_bounds._set_integer_constraints_from_physical_type", "ir_util.constant_value",
            "constraints._integer_bounds_errors", "constraints._integer_bounds_errors_for_expression",
            "header_generator._cpp_integer_type_for_range", "header_generator._render_builtin_operation"],
        "bounds": {"max_modulus_enumerated": bounds["M"], "max_modulus_for_3_argument_max": bounds["M3"],
                   "operand_bounds": "unbounded integers or +-infinity (symbolic)", "operand_values": "unbounded integers",
                   "outside": "moduli above the bound; $max arity > 3; congruence of var*var products proven on the linearised product"},
        "paths": total.paths, "queries": total.queries, "sat": total.sat, "unsat": total.unsat,
        "unknown": total.unknown, "solver_s": round(total.solver_s, 1),
        "reachability_witnesses": witnesses, "negative_controls_fired": "%d/%d" % (fired, ntot),
        "slowest_tasks": sorted(slow, reverse=True)[:8],
        "by_harness": by_kind, "tasks": len(tasks), "layer_c": layer_c,
    })
    rep.assumptions += [
        "operand annotations satisfy the representation invariant of expression_bounds._assert_integer_constraints and 0 <= modular_value < modulus",
        "math.gcd replaced by a stub that forks over residues of its symbolic argument modulo its concrete argument (exact)",
        "names int/str/min/max/abs injected into the module namespaces of expression_bounds, ir_util, constraints, header_generator",
    ]
    if witnesses == 0:
        rep.harness_error("no path reached an oracle (vacuous)")
    return rep.finish()


def replay_file(path):
    import json

    with open(path) as f:
        obj = json.load(f)
    ok, observed = replay(obj["replay"])
    print("replay %s: %s -> %s" % (path, "REPRODUCED" if ok else "did not reproduce", observed))
    if ok:
        print("VIOLATION property=C05 replay=%s" % path)
    return 1 if ok else 0
