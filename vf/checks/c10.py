"""C10 -- tokenization is lossless, position-accurate and classifies as
documented.

(a) Pattern table, unbounded (E3, z3 regular-expression theory): every row of
the token table published in doc/grammar.md, the three name rules of
doc/language-reference.md and a numeric-constant rule written from its prose
are compared with the tokenizer's own pattern list -- language equality over
all strings.

(b) The driver, bounded (E1): the real tokenizer._tokenize_line and
tokenizer.tokenize run on strings whose characters are solver variables
(vf/symstr.py); the compiled `re` patterns are replaced, in the harness's copy
of the pattern list, by a symbolic interpreter of the same patterns with
Python's backtracking order (vf/rx.py, validated against `re` every run).
An independent tokenizer built from the *documented* table (longest match,
ties to the earlier row, whitespace dropped, error when nothing matches; the
documented indentation-stack rule) runs on the same symbolic text and must
produce the same tokens, texts, columns and errors."""

import itertools
import json
import multiprocessing
import re
import time
import traceback

import z3

from vf import common, pysym, rx, symstr
from vf.symstr import SymStr, SymText

from compiler.front_end import tokenizer
from compiler.util import parser_types


# ----------------------------------------------------------------------
# documented table
# ----------------------------------------------------------------------


def doc_table():
    """[(pattern text, symbol or None)] from doc/grammar.md, in listed order."""
    rows = []
    with open(common.REPO + "/doc/grammar.md") as f:
        lines = f.read().split("\n")
    i = [k for k, l in enumerate(lines) if l.startswith("Pattern") and "Symbol" in l][0] + 2
    while i < len(lines) and lines[i].strip():
        line = lines[i]
        m = re.match(r"^`(.*)`\s+\| (.*)$", line)
        if not m:
            raise ValueError("unparsable token table row: %r" % line)
        sym = m.group(2).strip()
        pat = m.group(1)
        if not sym.startswith('`"'):
            pat = pat.replace("\\|", "|")  # markdown table escape (literal rows are regex-escaped instead)
        rows.append((pat, None if sym.startswith("*no symbol") else sym.strip("`")))
        i += 1
    return rows


def doc_name_rules():
    with open(common.REPO + "/doc/language-reference.md") as f:
        text = f.read()
    out = {}
    for key, sym in (("always `CamelCase`", "CamelWord"), ("always `snake_case`", "SnakeWord"), ("always `SHOUTY_CASE`", "ShoutyWord")):
        k = text.index(key)
        m = re.search(r"regex\s+`([^`]+)`", text[k:k + 600])
        out[sym] = m.group(1)
    return out


def impl_table():
    rows = [(re.escape(l), '"%s"' % l) for l in tokenizer.LITERAL_TOKEN_PATTERNS]
    rows += [(p.regex.pattern, p.symbol) for p in tokenizer.REGEX_TOKEN_PATTERNS]
    return rows


def equivalent(ra, rb, timeout_ms=60000):
    """('unsat', None) if the two regexes denote the same language, else a witness."""
    s = z3.Solver()
    s.set("timeout", timeout_ms)
    x = z3.String("x")
    s.add(z3.Xor(z3.InRe(x, ra), z3.InRe(x, rb)))
    r = str(s.check())
    if r == "sat":
        return r, symstr._unescape_z3(s.model()[x].as_string())
    return r, None


def number_rule():
    """The numeric-constant formats of doc/language-reference.md, written
    from the prose (with the table's optional `_` directly after 0x/0b)."""
    R, U, Cc, St, Lo, Op = z3.Range, z3.Union, z3.Concat, z3.Star, z3.Loop, z3.Option
    lit = lambda s: z3.Re(z3.StringVal(s))
    dec = R(z3.StringVal("0"), z3.StringVal("9"))
    hexd = U(dec, R(z3.StringVal("a"), z3.StringVal("f")), R(z3.StringVal("A"), z3.StringVal("F")))
    bind = R(z3.StringVal("0"), z3.StringVal("1"))
    us = lit("_")

    def grouped(d, n):
        return Cc(Lo(d, 1, n), St(Cc(us, Lo(d, n, n))))

    decimal = U(z3.Plus(dec), grouped(dec, 3))

    def based(prefix, d):
        return Cc(lit(prefix), U(z3.Plus(d), Cc(Op(us), grouped(d, 4)), Cc(Op(us), grouped(d, 8))))

    return U(decimal, based("0x", hexd), based("0b", bind))


def part_a(rep):
    ob = dis = 0
    doc, impl = doc_table(), impl_table()
    samples = []
    if len(doc) != len(impl):
        rep.violation({"part": "table", "kind": "length"}, "doc/grammar.md lists %d token patterns, the tokenizer has %d" % (len(doc), len(impl)),
                      {"doc": len(doc), "impl": len(impl)})
    for k, ((dp, ds), (ip, isym)) in enumerate(zip(doc, impl)):
        ob += 1
        try:
            (rd, ed), (ri, ei) = rx.pattern_to_re(dp), rx.pattern_to_re(ip)
        except rx.Unsupported as u:
            rep.inconclusive_item("row %d: %s" % (k, u))
            continue
        r, w = equivalent(rd, ri)
        if ds != isym or ed != ei or r == "sat":
            rep.violation({"part": "table", "row": k}, "token table row %d: documented %r -> %s, tokenizer %r -> %s%s" % (
                k, dp, ds, ip, isym, (" (differ on %r)" % w) if w is not None else ""), {"row": k, "doc": [dp, ds], "impl": [ip, isym], "witness": w})
        elif r != "unsat":
            rep.inconclusive_item("row %d: solver %s" % (k, r))
        else:
            dis += 1
        if k in (45, 48, 58):
            samples.append({"row": k, "documented": dp, "tokenizer": ip, "symbol": ds, "query": "exists s: s in L(doc) xor s in L(impl)", "verdict": r})
    # name rules of the language reference vs the tokenizer's classes
    for sym, pat in doc_name_rules().items():
        ob += 1
        mine = rx.union(rx.pattern_to_re(p.regex.pattern)[0] for p in tokenizer.REGEX_TOKEN_PATTERNS if p.symbol == sym)
        r, w = equivalent(rx.pattern_to_re(pat)[0], mine)
        if r == "sat":
            rep.violation({"part": "names", "symbol": sym}, "%s: the language reference's rule %r and the tokenizer differ on %r" % (sym, pat, w),
                          {"symbol": sym, "witness": w})
        elif r == "unsat":
            dis += 1
        else:
            rep.inconclusive_item("name rule %s: solver %s" % (sym, r))
    ob += 1
    nums = rx.union(rx.pattern_to_re(p.regex.pattern)[0] for p in tokenizer.REGEX_TOKEN_PATTERNS if p.symbol == "Number")
    r, w = equivalent(number_rule(), nums)
    if r == "sat":
        rep.violation({"part": "numbers"}, "numeric-constant rule of the language reference and the tokenizer's Number patterns differ on %r" % w, {"witness": w})
    elif r == "unsat":
        dis += 1
    else:
        rep.inconclusive_item("number rule: solver %s" % r)
    # the documented examples
    for text, ok in (("12", 1), ("012", 1), ("0xc", 1), ("0xC", 1), ("0XC", 0), ("0b1100", 1), ("1_000_000", 1), ("123_456_789", 1),
                     ("0x1234_5678_9abc_def0", 1), ("0x12345678_9abcdef0", 1), ("0b1010_0101_1010_0101", 1), ("0b10100101_10100101", 1),
                     ("1000_000", 0), ("1_000_00", 0), ("0x1234_567", 0), ("0x1234_5678_9abcdef0", 0)):
        ob += 1
        s = z3.Solver()
        s.add(z3.InRe(z3.StringVal(text), nums) != z3.BoolVal(bool(ok)))
        if str(s.check()) == "unsat":
            dis += 1
        else:
            rep.violation({"part": "number-example", "text": text}, "documented example %r is %s a Number for the tokenizer" % (text, "not" if ok else ""), {"text": text})
    return ob, dis, samples


# ----------------------------------------------------------------------
# symbolic stand-ins for the compiled patterns
# ----------------------------------------------------------------------


class RegexProxy:
    def __init__(self, pattern):
        self.pattern = pattern
        self.tree = rx.sre_parse.parse(pattern)

    def match(self, s, pos=0):
        if isinstance(s, str):
            return re.compile(self.pattern).match(s, pos)
        c = pysym.ctx()
        for cond, end in rx.match_alternatives(self.tree, s.chars, pos):
            cond = z3.simplify(cond)
            if z3.is_false(cond):
                continue
            if c.fork(cond):
                return rx.SymMatch(s[pos:end], pos, end)
        return None


class proxied_tokenizer:
    """Context manager: every compiled pattern the tokenizer module holds -- the rows of
    REGEX_TOKEN_PATTERNS and any module-level `re.Pattern` -- is replaced by a symbolic proxy, and the
    module's string constants are registered so that a symbolic string can be looked up in sets of them."""

    def __enter__(self):
        self.saved = {"REGEX_TOKEN_PATTERNS": tokenizer.REGEX_TOKEN_PATTERNS}
        tokenizer.REGEX_TOKEN_PATTERNS = [PatProxy(p) for p in tokenizer.REGEX_TOKEN_PATTERNS]
        consts = set()

        def collect(v, depth=0):
            if isinstance(v, str):
                consts.add(v)
            elif isinstance(v, (set, frozenset, list, tuple)) and depth < 3:
                for x in v:
                    collect(x, depth + 1)
            elif isinstance(v, dict) and depth < 3:
                for k, x in v.items():
                    collect(k, depth + 1)
                    collect(x, depth + 1)

        for name, v in list(vars(tokenizer).items()):
            if isinstance(v, re.Pattern):
                self.saved[name] = v
                try:
                    setattr(tokenizer, name, RegexProxy(v.pattern))
                except rx.Unsupported:
                    pass
            elif not name.startswith("__"):
                collect(v)
        self.saved_consts = symstr.KNOWN_CONSTANTS
        symstr.KNOWN_CONSTANTS = sorted(consts)
        return self

    def __exit__(self, *a):
        for name, v in self.saved.items():
            setattr(tokenizer, name, v)
        symstr.KNOWN_CONSTANTS = self.saved_consts
        return False


class PatProxy:
    def __init__(self, p):
        self.regex = RegexProxy(p.regex.pattern)
        self.symbol = p.symbol
        self.example = p.example


def validate_nfa():
    """The NFA membership test against re.fullmatch on the documented patterns."""
    alphabet = "a_Z0x1b-# \"\\n$."
    strings = [""] + ["".join(t) for n in (1, 2, 3) for t in itertools.product(alphabet, repeat=n)]
    bad = total = 0
    for pat, _ in doc_table():
        nfa = rx.NFA(rx.sre_parse.parse(pat))
        rgx = re.compile(pat)
        for s_ in strings[::7]:
            total += 1
            mine = z3.is_true(z3.simplify(nfa.accepts([z3.IntVal(ord(ch)) for ch in s_])))
            real = rgx.fullmatch(s_) is not None
            if mine != real:
                bad += 1
    return bad, total


def validate_matcher():
    """The symbolic interpreter against the real `re` on every string of
    length <= 3 over a 15-character alphabet (and a few longer ones)."""
    alphabet = "a_Z0x1b-# \"\\n$."
    bad = 0
    total = 0
    extra = ["0x_12_3", "0x1234_5678", "1_000", "12_34", "true", "falsey", '"a\\n"', '"\\q"', "--", "-- x", "--x", "0b_1", "EmbossReservedX", "A1", "AB1", "Ab"]
    strings = [""] + ["".join(t) for n in (1, 2) for t in itertools.product(alphabet, repeat=n)] + ["".join(t) for t in itertools.product(alphabet, repeat=3)][::5] + extra
    for p in tokenizer.REGEX_TOKEN_PATTERNS:
        for s in strings:
            total += 1
            real = p.regex.match(s)
            mine = rx.concrete_match_end(p.regex.pattern, s)
            if (real.end() if real else None) != mine:
                bad += 1
    return bad, total


# ----------------------------------------------------------------------
# the independent tokenizer built from the documented table
# ----------------------------------------------------------------------


class DocTokenizer:
    def __init__(self):
        self.rows = []
        for pat, sym in doc_table():
            nfa = rx.NFA(rx.sre_parse.parse(pat))
            self.rows.append((nfa, nfa.at_end, sym))

    def line(self, s):
        """Returns ('ok', [(symbol, start, end)]) or ('error', offset), forking on the characters."""
        c = pysym.ctx()
        n = len(s)
        out = []
        a = 0
        while a < n:
            found = None
            for b in range(n, a, -1):  # longest first
                seg = s.chars[a:b]
                for nfa, at_end, sym in self.rows:  # ties: the earlier row
                    if at_end and b != n:
                        continue
                    cond = nfa.accepts(seg)
                    if z3.is_false(cond):
                        continue
                    if c.fork(cond):
                        found = (sym, a, b)
                        break
                if found:
                    break
            if not found:
                return "error", a
            if found[0] is not None:
                out.append(found)
            a = found[2]
        return "ok", out

    def text(self, lines):
        """The documented indentation rule over already tokenized lines:
        returns ('ok', tokens) with tokens (symbol, line, col_start, col_end) or ('error', line, kind)."""
        stack = [SymStr([])]
        toks = []
        for ln, s in enumerate(lines, 1):
            st, lt = self.line(s)
            if st == "error":
                return ("error", ln, "Unrecognized token", lt + 1)
            if all(sym == "Comment" for sym, _, _ in lt):
                toks += [(sym, ln, a + 1, b + 1) for sym, a, b in lt]
                toks.append(('"\\n"', ln, len(s) + 1, len(s) + 1))
                continue
            body = s.lstrip()
            p = s[0:len(s) - len(body)]
            if p == stack[-1]:
                pass
            elif p.startswith(stack[-1]) and len(p) > len(stack[-1]):
                toks.append(("Indent", ln, len(stack[-1]) + 1, len(p) + 1))
                stack.append(p)
            else:
                while True:
                    if len(stack) == 1 and not (p == stack[-1]):
                        return ("error", ln, "Bad indentation", 1)
                    if p == stack[-1]:
                        break
                    stack.pop()
                    toks.append(("Dedent", ln, len(p) + 1, len(p) + 1))
            toks += [(sym, ln, a + 1, b + 1) for sym, a, b in lt]
            toks.append(('"\\n"', ln, len(s) + 1, len(s) + 1))
        for _ in range(len(stack) - 1):
            toks.append(("Dedent", len(lines) + 1, 1, 1))
        return ("ok", toks)


FAMILIES = {
    # name: characters (every character of the line ranges over this set)
    "printable": "".join(chr(c) for c in range(32, 127)) + "\t",
    "numbers": "0123456789_xbXBafAF",
    "words": "abzABZ019_$",
    "operators": "=!<>&|+-*.?:,()[] ",
    "strings": "\"\\na #-",
    "docs": "- #a",
    "after keyword": "azAZ09_$ (.",
}


# whitespace that may lead a line: space, tab, and two characters that are whitespace for str.lstrip() and \\s
# but do not end a line for str.splitlines() (U+001F, U+00A0)
INDENT_CHARS = " \t\x1f\xa0"


def family_cond(chars, c):
    return z3.Or(*[c == ord(x) for x in sorted(set(chars))])


def run_line(job):
    """('line', family, L, first) -> result dict; `first` pins the first character (work splitting)"""
    _, fam, L, first = job
    out = {"job": list(job), "paths": 0, "obligations": 0, "discharged": 0, "candidates": [], "unknown": 0, "errors_seen": 0, "tokens_seen": 0}
    doc = DocTokenizer()
    fam_chars = FAMILIES[fam]
    holder = {}
    proxies = proxied_tokenizer()
    proxies.__enter__()
    try:
        def body(c):
            if first is not None and len(first) > 1:
                # a concrete prefix (a keyword) followed by L free characters of the family
                tail = SymStr.fresh("c", L)
                for ch in tail.chars:
                    c.assume(family_cond(fam_chars, ch))
                s = SymStr([z3.IntVal(ord(x)) for x in first] + tail.chars)
                holder["s"] = s
                return tokenizer._tokenize_line(s, 1, "f.emb")
            s = SymStr.fresh("c", L)
            holder["s"] = s
            for ch in s.chars:
                c.assume(family_cond(fam_chars, ch))
            if first is not None:
                c.assume(s.chars[0] == ord(first))
            return tokenizer._tokenize_line(s, 1, "f.emb")

        def on_path(pr):
            c = pr.ctx
            s = holder["s"]
            out["paths"] += 1
            out["obligations"] += 1

            def concrete():
                m = c.witness()
                return s.concrete(m) if m is not None else None

            if pr.kind == "raise":
                out["candidates"].append({"kind": "line", "text": concrete(), "what": "exception %s: %s" % (type(pr.exc).__name__, str(pr.exc)[:100])})
                return
            tokens, errors = pr.value
            st, exp = doc.line(s)  # forks further; each refinement is re-run from the start
            if errors:
                out["errors_seen"] += 1
                col = errors[0][0].location.start.column
                ok = st == "error" and exp + 1 == col
                what = "error at column %s, documented table %s" % (col, ("has no match at column %d" % (exp + 1)) if st == "error" else "tokenizes the line")
            else:
                out["tokens_seen"] += 1
                got = []
                texts_ok = True
                for t in tokens:
                    a, b = t.source_location.start.column - 1, t.source_location.end.column - 1
                    got.append((t.symbol, a, b))
                    tt = t.text
                    tc = tt.chars if isinstance(tt, SymStr) else [z3.IntVal(ord(x)) for x in tt]
                    sl = s.chars[a:b]
                    # the token's text is the slice at its reported columns
                    if len(tc) != len(sl) or any(not (x is y) and not z3.is_true(z3.simplify(x == y)) for x, y in zip(tc, sl)):
                        r, _ = c.prove(z3.And(*[x == y for x, y in zip(tc, sl)]) if len(tc) == len(sl) else z3.BoolVal(False))
                        texts_ok = texts_ok and r == "unsat"
                    if t.source_location.start.line != 1 or t.source_location.end.line != 1:
                        texts_ok = False
                ok = st == "ok" and got == exp and texts_ok
                what = "tokens %s, documented table gives %s%s" % (got, exp if st == "ok" else "an error at column %d" % (exp + 1),
                                                                   "" if texts_ok else " (token text differs from the source slice)")
            if ok:
                out["discharged"] += 1
            else:
                out["candidates"].append({"kind": "line", "text": concrete(), "what": what})

        with pysym.instrument():
            st_, complete = pysym.explore(body, on_path, max_paths=400000, timeout_ms=20000)
        if not complete:
            out["unknown"] += 1
        out["solver_queries"] = st_.queries
    finally:
        proxies.__exit__()
    return out


def run_indent(job):
    """('indent', lengths tuple, bodies tuple): prefixes of the given lengths with symbolic
    characters over INDENT_CHARS, fixed bodies."""
    _, lens, bodies = job
    out = {"job": [job[0], list(lens), list(bodies)], "paths": 0, "obligations": 0, "discharged": 0, "candidates": [], "unknown": 0,
           "errors_seen": 0, "tokens_seen": 0}
    doc = DocTokenizer()
    holder = {}
    proxies = proxied_tokenizer()
    proxies.__enter__()
    try:
        def body(c):
            lines = []
            for i, (n, b) in enumerate(zip(lens, bodies)):
                pre = SymStr.fresh("p%d" % i, n)
                for ch in pre.chars:
                    c.assume(family_cond(INDENT_CHARS, ch))
                lines.append(pre + b)
            holder["lines"] = lines
            return tokenizer.tokenize(SymText(lines), "f.emb")

        def on_path(pr):
            c = pr.ctx
            lines = holder["lines"]
            out["paths"] += 1
            out["obligations"] += 1

            def concrete():
                m = c.witness()
                return "\n".join(l.concrete(m) for l in lines) if m is not None else None

            if pr.kind == "raise":
                out["candidates"].append({"kind": "text", "text": concrete(), "what": "exception %s: %s" % (type(pr.exc).__name__, str(pr.exc)[:100])})
                return
            tokens, errors = pr.value
            exp = doc.text(lines)
            if errors:
                out["errors_seen"] += 1
                e = errors[0][0]
                ok = exp[0] == "error" and exp[1] == e.location.start.line and exp[2] == e.message
                what = "error %r on line %d; documented rule: %s" % (e.message, e.location.start.line, exp[:3])
            else:
                out["tokens_seen"] += 1
                got = [(t.symbol, t.source_location.start.line, t.source_location.start.column, t.source_location.end.column) for t in tokens]
                ok = exp[0] == "ok" and got == exp[1]
                # Indent/Dedent balance and one newline token per line
                bal = sum(1 for g in got if g[0] == "Indent") == sum(1 for g in got if g[0] == "Dedent")
                nl = sum(1 for g in got if g[0] == '"\\n"') == len(lines)
                ok = ok and bal and nl
                what = "tokens %s; documented rule gives %s" % (got, exp[1] if exp[0] == "ok" else exp)
                if ok:
                    # every token's text is the source slice at its reported position (Indent: the added whitespace;
                    # Dedent: empty; the newline token stands for the line terminator, which is not part of the line)
                    conds = []
                    for t in tokens:
                        loc = t.source_location
                        if t.symbol == '"\\n"':
                            conds.append(z3.BoolVal(t.text == "\n"))
                            continue
                        li = loc.start.line - 1
                        sl = lines[li][loc.start.column - 1:loc.end.column - 1] if li < len(lines) else SymStr([])
                        conds.append(_text_eq(t.text, sl))
                    r, m = c.prove(z3.And(*conds)) if conds else ("unsat", None)
                    out["obligations"] += 1
                    if r == "unsat":
                        out["discharged"] += 1
                    elif r == "sat":
                        ok = False
                        txt = "\n".join(l.concrete(m) for l in lines)
                        what = "a token's text is not the source slice at its position: %s" % [
                            (t.symbol, t.text.concrete(m) if isinstance(t.text, SymStr) else t.text) for t in tokens if t.symbol in ("Indent", "Dedent")]
                        out["candidates"].append({"kind": "text", "text": txt, "what": what})
                        return
                    else:
                        out["unknown"] += 1
            if ok:
                out["discharged"] += 1
            else:
                out["candidates"].append({"kind": "text", "text": concrete(), "what": what})

        with pysym.instrument():
            st_, complete = pysym.explore(body, on_path, max_paths=100000, timeout_ms=20000)
        if not complete:
            out["unknown"] += 1
    finally:
        proxies.__exit__()
    return out


def _text_eq(a, b):
    """z3 condition: the two texts (str or SymStr) are equal."""
    if isinstance(a, SymStr):
        return a._eq_cond(b)
    if isinstance(b, SymStr):
        return b._eq_cond(a)
    return z3.BoolVal(a == b)


def _job(job):
    try:
        z3.set_param("smt.random_seed", 0)
        return run_line(job) if job[0] == "line" else run_indent(job)
    except Exception as e:  # pylint: disable=broad-except
        return {"job": list(job), "error": "".join(traceback.format_exception(type(e), e, e.__traceback__))[-1500:]}


# ----------------------------------------------------------------------
# concrete reference (replay)
# ----------------------------------------------------------------------


def reference_tokens(text):
    """Plain-Python tokenizer from the documented table (no proxies)."""
    rows = [(re.compile(p), s) for p, s in doc_table()]
    toks = []
    stack = [""]
    lines = text.splitlines()
    for ln, line in enumerate(lines, 1):
        lt = []
        a = 0
        while a < len(line):
            best = None
            for rgx, sym in rows:
                m = rgx.match(line[a:])
                if m and len(m.group(0)) > (len(best[1]) if best else 0):
                    best = (sym, m.group(0))
            if not best:
                return ("error", ln, "Unrecognized token")
            if best[0] is not None:
                lt.append((best[0], ln, a + 1, a + 1 + len(best[1])))
            a += len(best[1])
        if all(t[0] == "Comment" for t in lt):
            toks += lt + [('"\\n"', ln, len(line) + 1, len(line) + 1)]
            continue
        p = line[:len(line) - len(line.lstrip())]
        if p == stack[-1]:
            pass
        elif p.startswith(stack[-1]):
            toks.append(("Indent", ln, len(stack[-1]) + 1, len(p) + 1))
            stack.append(p)
        else:
            while p != stack[-1]:
                if len(stack) == 1:
                    return ("error", ln, "Bad indentation")
                stack.pop()
                toks.append(("Dedent", ln, len(p) + 1, len(p) + 1))
        toks += lt + [('"\\n"', ln, len(line) + 1, len(line) + 1)]
    toks += [("Dedent", len(lines) + 1, 1, 1)] * (len(stack) - 1)
    return ("ok", toks)


def replay(c):
    text = c.get("text")
    if text is None:
        return False, "no concrete text"
    try:
        tokens, errors = tokenizer.tokenize(text, "f.emb")
    except Exception as e:  # pylint: disable=broad-except
        return True, "real tokenizer raised %s: %s on %r" % (type(e).__name__, e, text)
    ref = reference_tokens(text)
    if errors:
        e = errors[0][0]
        bad = not (ref[0] == "error" and ref[1] == e.location.start.line and ref[2] == e.message)
        return bad, "tokenizer: error %r line %d; documented table: %s; text %r" % (e.message, e.location.start.line, ref[:3], text)
    got = [(t.symbol, t.source_location.start.line, t.source_location.start.column, t.source_location.end.column) for t in tokens]
    lines = text.splitlines()
    def _slice(t):
        li = t.source_location.start.line - 1
        return lines[li][t.source_location.start.column - 1:t.source_location.end.column - 1] if li < len(lines) else ""
    slices_ok = all((t.text == "\n") if t.symbol == '"\\n"' else _slice(t) == t.text for t in tokens)
    bad = not (ref[0] == "ok" and got == ref[1] and slices_ok)
    return bad, "tokenizer: %s; documented table: %s; text %r" % (got, ref[1] if ref[0] == "ok" else ref, text)


def main(tier):
    rep = common.Report("C10", tier, "proof")
    ob, dis, samples = part_a(rep)
    for s in samples:
        rep.sample(s)
    bad, total = validate_matcher()
    if bad:
        rep.harness_error("symbolic regex interpreter disagrees with `re` on %d/%d (pattern, string) pairs" % (bad, total))
    bad2, total2 = validate_nfa()
    if bad2:
        rep.harness_error("NFA membership disagrees with re.fullmatch on %d/%d (pattern, string) pairs" % (bad2, total2))
    jobs = []
    if tier == "quick":
        fam_len = [("printable", 2), ("numbers", 4), ("words", 4), ("operators", 3), ("strings", 4), ("docs", 4)]
        lens_space, bodies_space, nlines = (0, 1, 2), ("a", "#c", ""), 3
    else:
        fam_len = [("printable", 3), ("numbers", 6), ("words", 6), ("operators", 4), ("strings", 6), ("docs", 7)]
        lens_space, bodies_space, nlines = (0, 1, 2, 3), ("a", "#c", ""), 4
    for fam, L in fam_len:
        for first in sorted(set(FAMILIES[fam])):
            jobs.append(("line", fam, L, first))
    # every keyword / `$` builtin of the literal table followed by free characters (is the longer word one token?)
    for lit in tokenizer.LITERAL_TOKEN_PATTERNS:
        if len(lit) > 1 and (lit[0] == "$" or lit[0].isalpha()):
            jobs.append(("line", "after keyword", 2 if tier == "quick" else 3, lit))
    ind = [("indent", lens, bodies) for lens in itertools.product(lens_space, repeat=nlines)
           for bodies in itertools.product(bodies_space, repeat=nlines)]
    if tier == "quick":
        import random
        rng = random.Random(common.seed())
        ind = rng.sample(ind, 160)
    jobs += ind
    # unicode line terminators: str.splitlines is the environment; each terminator between two symbolic-free lines
    jobs.sort(key=lambda j: (0 if j[0] == "line" and j[1] in ("operators", "printable") else 1))
    with multiprocessing.Pool(common.ncpu()) as pool:
        results = pool.map(_job, jobs, chunksize=1)
    cands = []
    paths = 0
    per = {}
    for r in results:
        if "error" in r:
            rep.harness_error("%s: %s" % (r["job"], r["error"]))
            continue
        ob += r["obligations"]
        dis += r["discharged"]
        paths += r["paths"]
        if r["unknown"]:
            rep.inconclusive_item("%s: exploration incomplete" % (r["job"],))
        if r["job"][0] == "line":
            k = per.setdefault("%s L=%d" % (r["job"][1], r["job"][2]), {"paths": 0, "tokenized": 0, "errors": 0})
            k["paths"] += r["paths"]
            k["tokenized"] += r["tokens_seen"]
            k["errors"] += r["errors_seen"]
        cands += r["candidates"]
    # the extra Unicode line terminators (splitlines is the environment): concrete around a symbolic-free body
    for term in ("\n", "\r", "\r\n", "\x0b", "\x0c", "\x1c", "\x1d", "\x1e", "\x85", " ", " "):
        ob += 1
        bad_, obs = replay({"text": "a" + term + "  b" + term + "c"})
        if bad_:
            cands.append({"kind": "text", "text": "a" + term + "  b" + term + "c", "what": "line terminator %r" % term})
        else:
            dis += 1
    seen = set()
    for c in cands:
        sig = (c["kind"], c["what"][:40])
        if sig in seen:
            continue
        seen.add(sig)
        ok, observed = replay(c)
        if ok:
            rep.violation({"kind": c["kind"]}, "C10 %s; %s" % (c["what"][:300], observed[:600]), c)
        else:
            rep.harness_error("candidate did not reproduce: %r (%s)" % (c, observed[:200]))
    if paths == 0:
        rep.harness_error("no path explored (vacuous)")
    rep.sample(per)
    rep.coverage.update({
        "obligations": ob, "discharged": dis,
        "checker_cmd": "python3-vt /verif/check C10 --tier %s" % tier,
        "trusted_base": ["z3 sequence/regex theory", "vf/rx.py symbolic `re` interpreter (validated against `re` on %d pattern/string pairs this run)" % total,
                         "vf/symstr.py", "str.splitlines as the environment"],
        "paths": paths, "line_families": per, "indentation_configurations": len(ind),
        "functions_encoded": ["tokenizer._tokenize_line", "tokenizer.tokenize", "tokenizer.REGEX_TOKEN_PATTERNS / LITERAL_TOKEN_PATTERNS (as data)"],
        "bounds": {"pattern table": "all strings (language equivalence)",
                   "lines": "every line of exactly L characters over each family: " + ", ".join(sorted(per)),
                   "indentation": "%d lines, leading whitespace of 0..%d characters over {space, tab, U+001F, U+00A0}, bodies from ('a', '#c', '')" % (nlines, max(lens_space)),
                   "outside": "longer lines; characters outside the families; Unicode terminators are exercised concretely"},
    })
    return rep.finish()


def replay_file(path):
    with open(path) as f:
        obj = json.load(f)
    ok, observed = replay(obj["replay"])
    print("replay %s: %s -> %s" % (path, "REPRODUCED" if ok else "did not reproduce", observed))
    if ok:
        print("VIOLATION property=C10 replay=%s" % path)
    return 1 if ok else 0
