"""C03 write inference (E1) -- placeholder until built."""


def run(rep, tier):
    return {"queries": 0, "note": "not built yet"}
