"""C03, write inference (E1): write_inference._invert_expression is executed
on real ir_data expression trees whose constants are unbounded symbolic
integers; z3 proves that the returned inverse, composed with the forward
expression, is the identity for every written value and every constant, and
that None is returned exactly for the non-invertible shapes."""

import itertools

import z3

from vf import pysym
from vf.pysym import SymInt, SymIntStr
from vf.checks import c05  # instrumented module list

from compiler.front_end import write_inference, expression_bounds
from compiler.util import ir_data, ir_util

FM = ir_data.FunctionMapping
OPS = {"+": FM.ADDITION, "-": FM.SUBTRACTION, "*": FM.MULTIPLICATION}


def const_leaf(term):
    v = SymIntStr(SymInt(term))
    return ir_data.Expression(
        constant=ir_data.NumericConstant(value=v),
        type=ir_data.ExpressionType(integer=ir_data.IntegerType(
            modulus="infinity", modular_value=v, minimum_value=v, maximum_value=v)))


def ref_leaf(name):
    return ir_data.Expression(
        field_reference=ir_data.FieldReference(path=[ir_data.Reference(
            canonical_name=ir_data.CanonicalName(module_file="m.emb", object_path=["S", name]))]),
        type=ir_data.ExpressionType(integer=ir_data.IntegerType(
            modulus="1", modular_value="0", minimum_value="-infinity", maximum_value="infinity")))


def fn(op, a, b):
    return ir_data.Expression(
        function=ir_data.Function(function=OPS[op], args=[a, b]),
        type=ir_data.ExpressionType(integer=ir_data.IntegerType(
            modulus="1", modular_value="0", minimum_value="-infinity", maximum_value="infinity")))


def evaluate(e, env):
    w = e.which_expression
    if w == "constant":
        v = e.constant.value
        return v.sym.t if isinstance(v, SymIntStr) else z3.IntVal(int(v))
    if w == "field_reference":
        return env["ref:" + e.field_reference.path[-1].canonical_name.object_path[-1]]
    if w == "builtin_reference":
        return env["$logical_value"]
    if w == "function":
        a = [evaluate(x, env) for x in e.function.args]
        f = e.function.function
        if f == FM.ADDITION:
            return a[0] + a[1]
        if f == FM.SUBTRACTION:
            return a[0] - a[1]
        if f == FM.MULTIPLICATION:
            return a[0] * a[1]
    raise AssertionError("unexpected node %r" % w)


def shapes(max_depth):
    """Yields (description, builder) where builder(consts) -> (expression,
    n_refs, invertible)."""
    sib_kinds = ("const", "const_expr", "ref")
    for depth in range(0, max_depth + 1):
        for spine in itertools.product(itertools.product("+-*", (0, 1)), repeat=depth):
            for sibs in itertools.product(sib_kinds, repeat=depth):
                if sum(1 for s in sibs if s != "const") > 1:
                    continue
                yield spine, sibs


def build(spine, sibs, fresh):
    """Builds the tree from the inside out: the innermost node is the field reference x."""
    e = ref_leaf("x")
    nrefs = 1
    for (op, side), sib in zip(reversed(spine), reversed(sibs)):
        if sib == "const":
            s = const_leaf(fresh())
        elif sib == "const_expr":
            s = fn("+", const_leaf(fresh()), const_leaf(fresh()))
        else:
            s = ref_leaf("y")
            nrefs += 1
        e = fn(op, e, s) if side == 0 else fn(op, s, e)
    return e, nrefs


def run(rep, tier):
    depth = 3 if tier == "quick" else 4
    stats = pysym.Stats()
    out = {"shapes": 0, "queries": 0, "discharged": 0, "invertible_shapes": 0, "rejected_shapes": 0,
           "max_spine_depth": depth, "functions": ["write_inference._invert_expression",
                                                    "write_inference._find_field_reference_path"]}
    violations = []
    for spine, sibs in shapes(depth):
        out["shapes"] += 1
        holder = {}

        def body(c):
            n = [0]

            def fresh():
                n[0] += 1
                return z3.Int("c%d" % n[0])

            e, nrefs = build(spine, sibs, fresh)
            holder["e"], holder["nrefs"] = e, nrefs
            return write_inference._invert_expression(e, None)

        def on_path(pr):
            c = pr.ctx
            e, nrefs = holder["e"], holder["nrefs"]
            desc = {"spine": ["%s@%d" % s for s in spine], "siblings": list(sibs)}
            if pr.kind == "raise":
                m = c.witness()
                if m is not None:
                    violations.append((desc, "exception %s: %s" % (type(pr.exc).__name__, pr.exc), {}))
                return
            additive_spine = all(op in "+-" for op, _ in spine)
            should_invert = nrefs == 1 and additive_spine
            if pr.value is None:
                out["rejected_shapes"] += 1
                out["queries"] += 1
                if should_invert:
                    violations.append((desc, "invertible shape was not inverted", {}))
                else:
                    out["discharged"] += 1
                return
            out["invertible_shapes"] += 1
            if not should_invert:
                violations.append((desc, "an inverse was returned for a non-invertible shape", {}))
                return
            dest, inv = pr.value
            v = z3.Int("v")
            x_written = evaluate(inv, {"$logical_value": v})
            readback = evaluate(e, {"ref:x": x_written})
            out["queries"] += 2
            ok_dest = dest.which_expression == "field_reference" and \
                dest.field_reference.path[-1].canonical_name.object_path[-1] == "x"
            if ok_dest:
                out["discharged"] += 1
            else:
                violations.append((desc, "destination is not the referenced field", {}))
            r, model = c.prove(readback == v)
            if r == "unsat":
                out["discharged"] += 1
            elif r == "sat":
                vals = {str(d): model.eval(d, model_completion=True).as_long() for d in pysym._consts_of(readback == v)}
                violations.append((desc, "writing v stores a value that does not read back as v", vals))
            else:
                rep.inconclusive_item("write inference %r: solver unknown" % (desc,))

        with pysym.instrument(*c05.INSTRUMENTED, write_inference):
            st1, _ = pysym.explore(body, on_path, max_paths=200)
        stats.add(st1)
    # replay: concrete trees through the real function with plain strings
    seen = set()
    for desc, what, vals in violations:
        sig = (tuple(desc["spine"]), tuple(desc["siblings"]), what)
        if sig in seen:
            continue
        seen.add(sig)
        ok, observed = replay_concrete(desc, vals)
        if ok:
            rep.violation({"part": "write_inference", "spine": desc["spine"], "siblings": desc["siblings"]},
                          "write inference for shape %s / %s: %s (%s)" % (desc["spine"], desc["siblings"], what, observed),
                          {"desc": desc, "vals": vals, "what": what})
        else:
            rep.harness_error("write-inference candidate did not reproduce: %r %s (%s)" % (desc, what, observed))
    out["paths"] = stats.paths
    out["solver_queries"] = stats.queries
    if out["invertible_shapes"] == 0:
        rep.harness_error("write inference: no invertible shape reached the oracle (vacuous)")
    rep.sample({"write_inference_shape": {"spine": ["-@0", "+@1"], "meaning": "c2 + (x - c1)"},
                "obligation": "forall v, c1, c2: forward(inverse(v)) == v"})
    return out


def replay_concrete(desc, vals):
    """Re-runs the real _invert_expression with plain decimal strings."""
    counter = [0]

    def fresh():
        counter[0] += 1
        return z3.IntVal(vals.get("c%d" % counter[0], 3 + 2 * counter[0]))

    spine = [(s.split("@")[0], int(s.split("@")[1])) for s in desc["spine"]]

    def cleaf(term):
        v = str(term.as_long())
        return ir_data.Expression(constant=ir_data.NumericConstant(value=v), type=ir_data.ExpressionType(
            integer=ir_data.IntegerType(modulus="infinity", modular_value=v, minimum_value=v, maximum_value=v)))

    global const_leaf
    saved = const_leaf
    const_leaf = cleaf
    try:
        e, nrefs = build(spine, desc["siblings"], fresh)
        try:
            res = write_inference._invert_expression(e, None)
        except Exception as ex:  # pylint: disable=broad-except
            return True, "real code raised %s: %s" % (type(ex).__name__, ex)
    finally:
        const_leaf = saved
    additive = all(op in "+-" for op, _ in spine)
    should = nrefs == 1 and additive
    if res is None:
        return should, "returned None"
    if not should:
        return True, "returned an inverse"
    dest, inv = res
    v = vals.get("v", 1000)

    def ev(x, env):
        w = x.which_expression
        if w == "constant":
            return int(x.constant.value)
        if w == "field_reference":
            return env["x"]
        if w == "builtin_reference":
            return env["v"]
        a = [ev(y, env) for y in x.function.args]
        f = x.function.function
        return a[0] + a[1] if f == FM.ADDITION else a[0] - a[1] if f == FM.SUBTRACTION else a[0] * a[1]

    xw = ev(inv, {"v": v})
    rb = ev(e, {"x": xw})
    return rb != v, "wrote %d, stored x=%d, reads back %d" % (v, xw, rb)
