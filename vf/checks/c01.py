"""C01 -- generated views report structure state and values exactly as the
.emb defines.  Translation validation per corpus structure: the header the
current compiler generates, compiled by clang -O2 to LLVM IR and executed
symbolically (E2), against the reference semantics of vf/embz3.py, for every
buffer content, every length 0..N and every parameter value."""

import json
import os
import shutil
import subprocess

from vf import common, cxx, front, structs, struct_check

QUICK_MODULES = ["testdata/condition.emb", "testdata/bits.emb", "testdata/dynamic_size.emb", "testdata/requires.emb",
                 "testdata/virtual_field.emb", "testdata/next_keyword.emb", "testdata/anonymous_bits.emb",
                 "testdata/parameters.emb", "testdata/nested_structure.emb", "testdata/enum.emb", "testdata/bcd.emb",
                 "testdata/int_sizes.emb"]


def classify(c):
    if c.get("monotonicity") and (c["kind"] in ("count", "elem_ok", "elem_read") or c.get("field_kind") == "array"):
        # one class of call sites (GenericArrayView over clamped storage), not one entry per array field
        return {"class": "array-view-over-truncated-storage", "kind": c["kind"]}
    return {"module": c["module"], "struct": c["struct"], "kind": c["kind"], "path": ".".join(c["path"])}


REPLAY_MAIN = r"""
#include <cstdio>
#include <cstdlib>
int main() {
  unsigned long n; if (scanf("%lu", &n) != 1) return 2;
  unsigned char* p = static_cast<unsigned char*>(malloc(n ? n : 1));
  for (unsigned long i = 0; i < n; ++i) { unsigned b; if (scanf("%x", &b) != 1) return 2; p[i] = (unsigned char)b; }
  long long a[8]; int na = 0; while (na < 8 && scanf("%lld", &a[na]) == 1) ++na;
  unsigned long long r = (unsigned long long)CALL;
  printf("result %llu\n", r);
  free(p);
  return 0;
}
"""


def replay(c):
    """Runs the entry point natively (ASan+UBSan) on the model's buffer; the
    counterexample reproduces if the native value equals the symbolic
    implementation value and differs from the reference value."""
    d = common.scratch_dir("verif-r1-")
    try:
        ir = front.compile_module(c["module"], c["import_dirs"], d)
        src, entries = structs.write_driver(ir, c["module"], d)
        e = [x for x in entries if x.fn == c["fn"]][0]
        nparams = len(c["params"])
        call = "%s(p, n%s)" % (c["fn"], "".join(", a[%d]" % i for i in range(nparams)))
        main = os.path.join(d, "main.cc")
        with open(main, "w") as f:
            f.write('#include "%s"\n#define CALL %s\n%s' % (os.path.basename(src), call, REPLAY_MAIN))
        exe = os.path.join(d, "replay")
        cxx.compile_native(main, exe, includes=[d])
        pvals = list(c["params"].values())
        if c.get("monotonicity"):
            outs = []
            for nn in (c["prefix_n"], c["n"]):
                stdin = "%d\n%s\n%s\n" % (nn, " ".join("%x" % b for b in c["bytes"][:nn]),
                                           " ".join(str(v - (1 << 64) if v >> 63 else v) for v in pvals))
                rc, out, err = cxx.run_native(exe, stdin)
                if rc != 0:
                    return True, "native run crashed: %s" % (err or out)[-300:]
                outs.append(int(out.split("result")[1].split()[0]))
            return outs[0] != outs[1] and outs[0] != 0, "%s reports %d on the first %d bytes and %d once %d bytes are present" % (
                c["fn"], outs[0], c["prefix_n"], outs[1], c["n"])
        stdin = "%d\n%s\n%s\n" % (c["n"], " ".join("%x" % b for b in c["bytes"]),
                                   " ".join(str(v - (1 << 64) if v >> 63 else v) for v in pvals))
        try:
            rc, out, err = cxx.run_native(exe, stdin)
        except subprocess.TimeoutExpired:
            return True, "native run timed out"
        if rc != 0:
            return True, "native run crashed: %s" % (err or out)[-300:]
        got = int(out.split("result")[1].split()[0])
        ref = c["ref"]
        refv = {"True": 1, "False": 0}.get(ref)
        if refv is None:
            refv = int(ref)
        mask = (1 << 64) - 1 if e.ret == "u64" else (1 << 32) - 1 if e.ret == "i32" else 1
        if (got & mask) != (refv & mask):
            return True, "native %s=%d, reference %d" % (c["fn"], got & mask, refv & mask)
        return False, "native run agrees with the reference (%d)" % (got & mask)
    finally:
        shutil.rmtree(d, ignore_errors=True)


def main(tier):
    rep = common.Report("C01", tier, "translation_validation")
    mods = struct_check.corpus()
    if tier == "quick":
        mods = [m for m in mods if m[0] in QUICK_MODULES or struct_check.in_quick_corpus(m[0])]
    results = struct_check.run_corpus(struct_check.check_module_c01, {"nmax": 24 if tier == "quick" else 40}, mods)
    tot = {"structures": 0, "entries": 0, "compared": 0, "queries": 0, "unsat": 0, "witnesses": 0, "instrs": 0,
           "controls_fired": 0, "controls_total": 0}
    skipped, not_encoded, per_module = [], [], {}
    seen = {}
    replayed = 0
    for r in results:
        for k in tot:
            tot[k] += getattr(r, k)
        per_module[r.module] = {"structures": r.structures, "compared": r.compared, "skipped": len(r.skipped),
                                "not_encoded": len(r.not_encoded), "solver_s": round(r.solver_s, 1)}
        skipped += ["%s: %s (%s)" % (r.module, a, b) for a, b in r.skipped]
        not_encoded += ["%s: %s" % (r.module, x) for x in r.not_encoded]
        for e in r.errors[:3]:
            rep.harness_error(e)
        for u in r.unknown[:10]:
            rep.inconclusive_item("%s: %s" % (r.module, u))
        for s in r.samples[:1]:
            rep.sample(s, cap=10)
        for c in r.candidates:
            key = classify(c)
            sig = json.dumps(key, sort_keys=True)
            seen[sig] = seen.get(sig, 0) + 1
            if seen[sig] > 1:
                continue
            ok, observed = replay(c)
            replayed += 1
            if not ok:
                rep.harness_error("candidate did not reproduce natively: %s (%s) n=%d bytes=%s" % (
                    c["what"], observed, c["n"], c["bytes"]))
                continue
            rep.violation(key, "%s: %s (symbolic impl %s, reference %s; n=%d, bytes=%s, params=%s)" % (
                c["what"], observed, c["impl"], c["ref"], c["n"], c["bytes"], c["params"]), c)
    if tot["witnesses"] == 0:
        rep.harness_error("no structure has a reachable Ok() (vacuous)")
    if tot["controls_total"] and tot["controls_fired"] * 10 < tot["controls_total"] * 8:
        rep.harness_error("negative controls fired %d/%d" % (tot["controls_fired"], tot["controls_total"]))
    rep.coverage.update({
        "programs": tot["structures"],
        "disagreements_checked": tot["compared"],
        "modules": len(results), "entry_points": tot["entries"], "queries": tot["queries"], "unsat": tot["unsat"],
        "ir_instructions_executed": tot["instrs"], "reachability_witnesses": tot["witnesses"],
        "negative_controls_fired": "%d/%d" % (tot["controls_fired"], tot["controls_total"]),
        "skipped_count": len(skipped), "skipped": skipped[:40], "not_encoded_count": len(not_encoded),
        "not_encoded": not_encoded[:20], "per_module": per_module, "replayed": replayed,
        "bounds": {"buffer_length": "0..min(%d, max size + 2)" % (24 if tier == "quick" else 40),
                   "contents": "all", "parameters": "all values of the declared parameter type",
                   "arrays": "element count <= 4 (assumed, stated), elements 0..1 observed individually",
                   "programs": "corpus (testdata/*.emb of the current tree + /verif/corpus), not all programs",
                   "outside": "multi-dimensional arrays; text I/O; writes (C03); structures the reference does not model are listed under skipped"},
    })
    rep.assumptions += [
        "constants folded by the front end are taken as known values (their soundness is C05 layer c)",
        "views over truncated storage see the truncated extent (arrays: element count from the clamped size)",
        "parameters within the range of their declared type", "clang 14 -O2 x86-64 IR is the implementation",
    ]
    if not_encoded:
        rep.inconclusive_item("%d entry points not encoded (first: %s)" % (len(not_encoded), not_encoded[0]))
    return rep.finish()


def replay_file(path):
    with open(path) as f:
        obj = json.load(f)
    ok, observed = replay(obj["replay"])
    print("replay %s: %s -> %s" % (path, "REPRODUCED" if ok else "did not reproduce", observed))
    if ok:
        print("VIOLATION property=C01 replay=%s" % path)
    return 1 if ok else 0
