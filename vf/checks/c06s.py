"""C06, clause "fields marked Skip are absent and fields marked Emit are
present" -- decided where the decision is taken: in the compiler.

E1 (pysym): the module is parsed concretely, then the `text_output`
attribute's string in the *raw* IR is replaced by a symbolic choice between
"Emit" and "Skip"; the real passes (glue.process_ir: synthetics,
attribute_checker, ...) and the real back end (header_generator.generate_header)
run on it.  Every comparison the real code makes with the attribute value
forks on the solver variable; at the end of each path the oracle -- "Skip:
no text-output clause for the field; Emit (or no attribute): one" -- is
evaluated under the path condition.  The domain is finite (two values x field
kinds) and this is said in the evidence; the attribute-absent default is a
concrete third run.  Counterexamples are replayed natively: the concrete module
is compiled with the real embossc path and WriteToString is run.
"""

import os
import subprocess

import z3

from vf import common, cxx, front, pysym

from compiler.front_end import glue
from compiler.back_end.cpp import header_generator

HEADER = '[$default byte_order: "LittleEndian"]\n[(cpp) namespace: "verif::c06"]\n\n'

INNER = "struct Inner:\n  0 [+1]  UInt  x\n  1 [+1]  UInt  y\n\n\n"

# kind -> (lines of the field inside `struct Probe`, name whose output is observed)
KINDS = {
    "physical": (["  1 [+1]  UInt  target", "{A}"], "target"),
    "virtual": (["  let target = other + 1", "{A}"], "target"),
    "bits_member": (["  1 [+1]  bits:", "    0 [+4]  UInt  target", "  {A}", "    4 [+4]  UInt  neighbour"], "target"),
    "aggregate": (["  1 [+2]  Inner  target", "{A}"], "target"),
    "array": (["  1 [+2]  UInt:8[2]  target", "{A}"], "target"),
    "conditional": (["  if other == 1:", "    1 [+1]  UInt  target", "  {A}"], "target"),
    "alias": (["  let target = other", "{A}"], "target"),
}


def module_text(kind, attr):
    """attr: None (no attribute) or the attribute's string."""
    lines, _ = KINDS[kind]
    out = [HEADER + INNER + "struct Probe:", "  0 [+1]  UInt  other"]
    for ln in lines:
        if "{A}" in ln:
            if attr is not None:
                out.append(ln.replace("{A}", '    [text_output: "%s"]' % attr))
        else:
            out.append(ln)
    return "\n".join(out) + "\n"


def _reader(text):
    def read(name):
        if name == "probe.emb":
            return text, None
        return None, ["not found: " + name]
    return read


def _find_attr(ir, field_name):
    """The text_output attribute of the field named `field_name` in the raw IR (searched in all types)."""
    found = []

    def walk_type(t):
        if t.has_field("structure"):
            for f in t.structure.field:
                if f.name.name.text == field_name:
                    for a in f.attribute:
                        if a.name.text == "text_output":
                            found.append(a)
        for s in t.subtype:
            walk_type(s)

    for t in ir.module[0].type:
        walk_type(t)
    return found


def emitted_in_header(header, name):
    return ('->Write("%s: ")' % name) in header or ('->Write("# %s: ")' % name) in header


def run_kind(kind):
    """Returns a list of result dicts, one per path."""
    _, observed = KINDS[kind]
    results = []
    text = module_text(kind, "Emit")

    def body(c):
        parsed = glue.only_parse_emboss_file("probe.emb", _reader(text))
        if parsed.errors:
            raise RuntimeError("probe module does not parse: %r" % (parsed.errors,))
        ir = parsed.ir
        attrs = _find_attr(ir, observed)
        if len(attrs) != 1:
            raise RuntimeError("expected one text_output attribute on %s, found %d" % (observed, len(attrs)))
        is_emit = z3.Bool("is_emit")
        attrs[0].value.string_constant.text = pysym.SymChoiceStr([(is_emit, "Emit"), (z3.BoolVal(True), "Skip")])
        ir2, errors = glue.process_ir(ir, None)
        if errors:
            return {"errors": errors, "is_emit": is_emit}
        header, herr = header_generator.generate_header(ir2, header_generator.Config(include_enum_traits=True))
        return {"errors": herr, "header": header, "is_emit": is_emit}

    def on_path(res):
        c = res.ctx
        if res.kind == "raise":
            results.append({"kind": kind, "status": "raised", "what": repr(res.exc)[:300]})
            return
        v = res.value
        is_emit = v["is_emit"]
        # which attribute value(s) does this path stand for?
        for val, cond in (("Emit", is_emit), ("Skip", z3.Not(is_emit))):
            if not c.witness(cond):
                continue
            if v.get("errors"):
                results.append({"kind": kind, "attr": val, "status": "rejected", "what": repr(v["errors"])[:300]})
                continue
            emitted = emitted_in_header(v["header"], observed)
            want = val == "Emit"
            results.append({"kind": kind, "attr": val, "status": "ok" if emitted == want else "mismatch",
                            "emitted": emitted, "expected": want})

    stats, complete = pysym.explore(body, on_path, max_paths=64)
    if not complete:
        results.append({"kind": kind, "status": "incomplete"})
    # default (no attribute): concrete run of the same pipeline
    parsed = glue.only_parse_emboss_file("probe.emb", _reader(module_text(kind, None)))
    ir2, errors = glue.process_ir(parsed.ir, None)
    if errors:
        results.append({"kind": kind, "attr": None, "status": "rejected", "what": repr(errors)[:300]})
    else:
        header, _ = header_generator.generate_header(ir2, header_generator.Config(include_enum_traits=True))
        emitted = emitted_in_header(header, observed)
        results.append({"kind": kind, "attr": None, "status": "ok" if emitted else "mismatch", "emitted": emitted,
                        "expected": True})
    return results, stats.paths


REPLAY_CC = r"""
#include <cstdio>
#include <string>
#include <cstring>
#include "probe.emb.h"
int main() {
  unsigned char buf[8] = {1, 0x21, 3, 4, 5, 6, 7, 8};
  auto view = ::verif::c06::MakeProbeView(buf, sizeof buf);
  ::std::string multi = ::emboss::WriteToString(view, ::emboss::MultilineText().WithComments(true));
  ::std::string single = ::emboss::WriteToString(view);
  bool in_multi = multi.find("target:") != ::std::string::npos;
  bool in_single = single.find("target:") != ::std::string::npos;
  printf("multi %d single %d\n%s\n%s\n", in_multi ? 1 : 0, in_single ? 1 : 0, multi.c_str(), single.c_str());
  return 0;
}
"""


def replay(c):
    """Compiles the concrete module with the real pipeline and runs WriteToString natively."""
    d = common.scratch_dir("verif-r6s-")
    with open(os.path.join(d, "probe.emb"), "w") as f:
        f.write(module_text(c["kind"], c["attr"]))
    try:
        front.compile_module("probe.emb", [d], d)
    except front.FrontEndError as e:
        return False, "module rejected by the front end: %s" % str(e)[:200]
    src = os.path.join(d, "main.cc")
    with open(src, "w") as f:
        f.write(REPLAY_CC)
    exe = os.path.join(d, "replay")
    cxx.compile_native(src, exe, includes=[d])
    rc, out, err = cxx.run_native(exe, "")
    if rc != 0:
        return False, "replay program failed: %s" % (err or out)[-300:]
    first = out.splitlines()[0].split()
    present = first[1] == "1" or first[3] == "1"
    want = c["expected"]
    text = " | ".join(out.splitlines()[1:])[:200]
    if present != want:
        return True, "field `target` (%s) marked %s is %s in WriteToString output: %s" % (
            c["kind"], ('[text_output: "%s"]' % c["attr"]) if c["attr"] else "with no text_output attribute",
            "present" if present else "absent", text)
    return False, "native output agrees with the documentation (%s)" % text


ORDER_MODULE = HEADER + "struct Probe:\n  0 [+1]  UInt  fa\n  1 [+1]  UInt  fb\n  2 [+1]  UInt  fc\n"


def run_order():
    """Clause "fields are emitted after the fields they depend on": the generated method writes fields in the
    order of `fields_in_dependency_order` (that this order respects dependencies is C15).  The order is made an
    arbitrary permutation of the structure's fields (harness-level finite choice, every permutation is a path)
    and the real header generator runs on it."""
    import re
    out = {"paths": 0, "mismatches": [], "errors": []}

    def body(c):
        parsed = glue.only_parse_emboss_file("probe.emb", _reader(ORDER_MODULE))
        ir, errors = glue.process_ir(parsed.ir, None)
        if errors:
            raise RuntimeError("probe module rejected: %r" % (errors,))
        st = [t for t in ir.module[0].type if t.name.name.text == "Probe"][0].structure
        n = len(st.field)
        rest = list(range(n))
        perm = []
        while rest:
            perm.append(rest.pop(c.choose(len(rest), "perm")))
        del st.fields_in_dependency_order[:]
        st.fields_in_dependency_order.extend(perm)
        header, herr = header_generator.generate_header(ir, header_generator.Config(include_enum_traits=True))
        if herr:
            raise RuntimeError("header generation failed: %r" % (herr,))
        names = [st.field[i].name.name.text for i in perm]
        return names, header

    def on_path(res):
        out["paths"] += 1
        if res.kind == "raise":
            out["errors"].append(repr(res.exc)[:200])
            return
        names, header = res.value
        written = re.findall(r'->Write\("(?:# )?([a-z_$0-9]+): "\)', header)
        want = [nm for nm in names if nm in written]
        if written != want:
            out["mismatches"].append({"dependency_order": names, "written": written})

    stats, complete = pysym.explore(body, on_path, max_paths=6000)
    out["complete"] = complete
    return out


CHAIN_MODULE = HEADER + ("struct Chain:\n  off_c [+1]  UInt  fc\n  off_b [+1]  UInt  off_c\n"
                         "  0     [+1]  UInt  off_b\n")

CHAIN_CC = r"""
#include <cstdio>
#include <cstring>
#include <string>
#include "chain.emb.h"
int main() {
  unsigned char buf[8] = {1, 2, 7, 0, 0, 0, 0, 0};
  unsigned char back[8] = {0, 0, 0, 0, 0, 0, 0, 0};
  auto view = ::verif::c06::MakeChainView(buf, sizeof buf);
  ::std::string text = ::emboss::WriteToString(view);
  auto w = ::verif::c06::MakeChainView(back, sizeof back);
  bool ok = ::emboss::UpdateFromText(w, text);
  bool same = ok && w.Ok() && w.fc().Read() == 7 && w.off_c().Read() == 2 && w.off_b().Read() == 1;
  printf("same %d ok %d text %s\n", same ? 1 : 0, ok ? 1 : 0, text.c_str());
  return 0;
}
"""


def replay_order(_c=None):
    """A structure whose fields are declared in the reverse of their dependency order: WriteToString, then
    UpdateFromText into a zeroed buffer, natively.  Reproduces if the text does not read back."""
    d = common.scratch_dir("verif-r6o-")
    with open(os.path.join(d, "chain.emb"), "w") as f:
        f.write(CHAIN_MODULE)
    try:
        front.compile_module("chain.emb", [d], d)
    except front.FrontEndError as e:
        return False, "chain module rejected by the front end: %s" % str(e)[:200]
    src = os.path.join(d, "main.cc")
    with open(src, "w") as f:
        f.write(CHAIN_CC)
    exe = os.path.join(d, "replay")
    cxx.compile_native(src, exe, includes=[d])
    rc, out, err = cxx.run_native(exe, "")
    if rc != 0:
        return True, "round trip of the chain structure crashed: %s" % (err or out)[-300:]
    if out.startswith("same 1"):
        return False, "chain structure reads back (%s)" % out.strip()[:150]
    return True, "WriteToString output of a structure declared in reverse dependency order does not read back: %s" % out.strip()[:200]


def run(rep):
    """Adds the Skip/Emit layer to the C06 report; returns coverage numbers."""
    paths = 0
    cases = 0
    replayed = 0
    pysym.instrument(header_generator)
    for kind in KINDS:
        try:
            results, p = run_kind(kind)
        except pysym.HarnessGap as e:
            rep.inconclusive_item("text_output %s: harness gap: %s" % (kind, e))
            continue
        paths += p
        for r in results:
            cases += 1
            if r["status"] == "ok":
                continue
            if r["status"] in ("raised", "incomplete", "rejected"):
                rep.harness_error("text_output %s: %s %s" % (kind, r["status"], r.get("what", "")))
                continue
            ok, observed = replay(r)
            replayed += 1
            if not ok:
                rep.harness_error("text_output candidate did not reproduce natively: %r (%s)" % (r, observed))
                continue
            rep.violation({"kind": "text_output", "field_kind": kind, "attr": r["attr"]}, observed,
                          {"kind": "text_output", "field_kind": kind, "attr": r["attr"], "expected": r["expected"]})
    order = run_order()
    for e in order["errors"][:3]:
        rep.harness_error("emission order: %s" % e)
    if not order["complete"]:
        rep.inconclusive_item("emission order: permutation enumeration incomplete")
    for m in order["mismatches"][:1]:
        # generator-level observation; it is a violation only if a structure with real dependencies does not read back
        ok, observed = replay_order()
        replayed += 1
        what = "text output writes fields in order %s although fields_in_dependency_order is %s" % (m["written"], m["dependency_order"])
        if ok:
            rep.violation({"kind": "emission_order"}, what + "; " + observed, {"kind": "emission_order", **m})
        else:
            rep.inconclusive_item(what + " -- but " + observed)
    return {"text_output_field_kinds": list(KINDS), "text_output_paths": paths, "text_output_cases": cases,
            "text_output_replayed": replayed, "emission_order_permutations": order["paths"],
            "emission_order_mismatches": len(order["mismatches"])}
