"""C05 layer (c): whole programs (placeholder until the corpus evaluator lands)."""


def run(rep, tier):
    return {"obligations": 0, "discharged": 0, "note": "not built yet"}
