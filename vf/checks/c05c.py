"""C05 layer (c): whole programs.  The real front end runs on every corpus
module; for every integer (sub)expression of the final IR a z3 evaluator
builds its value over one variable per referenced physical field or
parameter, ranging over the values of its physical type (virtual fields are
inlined), and asks for an environment that leaves the inferred interval or
congruence class (unsat expected), and -- where no variable occurs twice --
for environments attaining each bound (sat expected).  Constants the front
end folded (including $upper_bound/$lower_bound and $max_size_in_*) are
checked the same way."""

import multiprocessing
import time
import traceback

import z3

from vf import common, front, struct_check

from compiler.util import ir_data, ir_util, traverse_ir

FM = ir_data.FunctionMapping


class Unsupported(Exception):
    pass


class Env:
    def __init__(self, ir):
        self.ir = ir
        self.vars = {}      # key -> z3 term
        self.constraints = []
        self.occurrences = {}

    def var(self, key, make):
        self.occurrences[key] = self.occurrences.get(key, 0) + 1
        if key not in self.vars:
            self.vars[key] = make()
        return self.vars[key]


def physical_range(ty, field, tdef_unit, ir):
    """(lo, hi) of an integer-valued physical type, or 'bool' / ('enum', lo, hi)."""
    tdef = ir_util.find_object(ty.atomic_type.reference.canonical_name, ir)
    name = tuple(tdef.name.canonical_name.object_path)
    prelude = not tdef.name.canonical_name.module_file
    if ty.has_field("size_in_bits"):
        w = ir_util.constant_value(ty.size_in_bits)
    elif field is not None and isinstance(field, ir_data.Field):
        sz = ir_util.constant_value(field.location.size)
        w = None if sz is None else sz * tdef_unit
    else:
        w = None
    if tdef.has_field("enumeration"):
        mb = ir_util.get_integer_attribute(tdef.attribute, "maximum_bits") or 64
        signed = ir_util.get_boolean_attribute(tdef.attribute, "is_signed")
        w = min(w, mb) if w is not None else mb
        return ("enum", -(2 ** (w - 1)), 2 ** (w - 1) - 1) if signed else ("enum", 0, 2 ** w - 1)
    if prelude and name == ("Flag",):
        return "bool"
    if w is None:
        raise Unsupported("physical type of unknown width")
    if prelude and name == ("UInt",):
        return (0, 2 ** w - 1)
    if prelude and name == ("Int",):
        return (-(2 ** (w - 1)), 2 ** (w - 1) - 1)
    if prelude and name == ("Bcd",):
        return (0, 10 ** (w // 4) * 2 ** (w % 4) - 1)
    raise Unsupported("physical type %s" % ".".join(name))


def evaluate(e, env, depth=0):
    if depth > 60:
        raise Unsupported("too deep")
    w = e.which_expression
    if w == "constant":
        return z3.IntVal(int(e.constant.value))
    if w == "boolean_constant":
        return z3.BoolVal(bool(e.boolean_constant.value))
    if w == "constant_reference":
        obj = ir_util.find_object(e.constant_reference.canonical_name, env.ir)
        if isinstance(obj, ir_data.EnumValue):
            return evaluate(obj.value, env, depth + 1)
        if isinstance(obj, ir_data.Field) and ir_util.field_is_virtual(obj):
            return evaluate(obj.read_transform, env, depth + 1)
        raise Unsupported("constant reference")
    if w == "builtin_reference":
        raise Unsupported("builtin reference")
    if w == "field_reference":
        path = e.field_reference.path
        key = tuple(tuple(r.canonical_name.object_path) for r in path)
        obj = ir_util.find_object(path[-1].canonical_name, env.ir)
        if isinstance(obj, ir_data.Field) and ir_util.field_is_virtual(obj):
            if len(path) == 1:
                return evaluate(obj.read_transform, env, depth + 1)
            # a virtual field of a nested structure: its own fields are separate storage per path prefix
            sub = Env(env.ir)
            sub.vars, sub.constraints, sub.occurrences = env.vars, env.constraints, env.occurrences
            return evaluate_prefixed(obj.read_transform, env, key[:-1], depth + 1)
        if isinstance(obj, ir_data.RuntimeParameter):
            rng = physical_range(obj.physical_type_alias, None, 8, env.ir)
        else:
            parent = ir_util.find_parent_object(path[-1].canonical_name, env.ir)
            if not obj.type.has_field("atomic_type"):
                raise Unsupported("reference to an array")
            rng = physical_range(obj.type, obj, parent.addressable_unit, env.ir)
        return mkvar(env, key, rng)
    if w == "function":
        fn = e.function.function
        if fn == FM.PRESENCE:
            # $present(f) is f's existence condition (evaluated in f's own structure)
            path = e.function.args[0].field_reference.path
            target = ir_util.find_object(path[-1].canonical_name, env.ir)
            prefix = tuple(tuple(r.canonical_name.object_path) for r in path[:-1])
            if prefix:
                return evaluate_prefixed(target.existence_condition, env, prefix, depth + 1)
            return evaluate(target.existence_condition, env, depth + 1)
        if fn in (FM.UPPER_BOUND, FM.LOWER_BOUND):
            return z3.IntVal(int(e.type.integer.modular_value))
        a = [evaluate(x, env, depth + 1) for x in e.function.args]
        if fn == FM.ADDITION:
            return a[0] + a[1]
        if fn == FM.SUBTRACTION:
            return a[0] - a[1]
        if fn == FM.MULTIPLICATION:
            return a[0] * a[1]
        if fn == FM.EQUALITY:
            return a[0] == a[1]
        if fn == FM.INEQUALITY:
            return a[0] != a[1]
        if fn == FM.LESS:
            return a[0] < a[1]
        if fn == FM.LESS_OR_EQUAL:
            return a[0] <= a[1]
        if fn == FM.GREATER:
            return a[0] > a[1]
        if fn == FM.GREATER_OR_EQUAL:
            return a[0] >= a[1]
        if fn == FM.AND:
            return z3.And(a[0], a[1])
        if fn == FM.OR:
            return z3.Or(a[0], a[1])
        if fn == FM.CHOICE:
            return z3.If(a[0], a[1], a[2])
        if fn == FM.MAXIMUM:
            m = a[0]
            for x in a[1:]:
                m = z3.If(m >= x, m, x)
            return m
    raise Unsupported("expression %r" % w)


def evaluate_prefixed(e, env, prefix, depth):
    """Evaluates a nested structure's virtual field with its field references
    re-rooted under `prefix` (distinct storage per access path)."""
    w = e.which_expression
    if w == "field_reference":
        path = e.field_reference.path
        key = prefix + tuple(tuple(r.canonical_name.object_path) for r in path)
        obj = ir_util.find_object(path[-1].canonical_name, env.ir)
        if isinstance(obj, ir_data.Field) and ir_util.field_is_virtual(obj):
            return evaluate_prefixed(obj.read_transform, env, key[:-1], depth + 1)
        if isinstance(obj, ir_data.RuntimeParameter):
            rng = physical_range(obj.physical_type_alias, None, 8, env.ir)
        else:
            parent = ir_util.find_parent_object(path[-1].canonical_name, env.ir)
            if not obj.type.has_field("atomic_type"):
                raise Unsupported("reference to an array")
            rng = physical_range(obj.type, obj, parent.addressable_unit, env.ir)
        return mkvar(env, key, rng)
    if w == "function" and e.function.function not in (FM.PRESENCE, FM.UPPER_BOUND, FM.LOWER_BOUND):
        fake = ir_data.Expression()
        a = [evaluate_prefixed(x, env, prefix, depth + 1) for x in e.function.args]
        return _apply(e.function.function, a)
    return evaluate(e, env, depth)


def _apply(fn, a):
    table = {
        FM.ADDITION: lambda: a[0] + a[1], FM.SUBTRACTION: lambda: a[0] - a[1], FM.MULTIPLICATION: lambda: a[0] * a[1],
        FM.EQUALITY: lambda: a[0] == a[1], FM.INEQUALITY: lambda: a[0] != a[1], FM.LESS: lambda: a[0] < a[1],
        FM.LESS_OR_EQUAL: lambda: a[0] <= a[1], FM.GREATER: lambda: a[0] > a[1], FM.GREATER_OR_EQUAL: lambda: a[0] >= a[1],
        FM.AND: lambda: z3.And(a[0], a[1]), FM.OR: lambda: z3.Or(a[0], a[1]), FM.CHOICE: lambda: z3.If(a[0], a[1], a[2]),
    }
    if fn == FM.MAXIMUM:
        m = a[0]
        for x in a[1:]:
            m = z3.If(m >= x, m, x)
        return m
    return table[fn]()


def mkvar(env, key, rng):
    def make():
        n = len(env.vars)
        if rng == "bool":
            return z3.Bool("v%d" % n)
        v = z3.Int("v%d" % n)
        lo, hi = rng[-2], rng[-1]
        env.constraints.append(z3.And(v >= lo, v <= hi))
        return v
    return env.var(key, make)


def all_expressions(ir):
    out = []

    def visit(expression):
        out.append(expression)

    traverse_ir.fast_traverse_ir_top_down(ir, [ir_data.Expression], visit)
    return out


def check_module(job):
    emb, import_dirs, opts = job
    res = {"module": emb, "expressions": 0, "obligations": 0, "discharged": 0, "tight_checked": 0, "candidates": [], "unknown": [],
           "skipped": 0, "errors": [], "samples": []}
    try:
        try:
            ir = front.parse(emb, import_dirs)
        except front.FrontEndError as e:
            return res
        seen_ids = set()
        exprs = []
        # only the main module's expressions (imports are checked as their own modules)
        main = ir_data.EmbossIr(module=[ir.module[0]])
        for e in all_expressions(main):
            if id(e) in seen_ids:
                continue
            seen_ids.add(id(e))
            exprs.append(e)
        for e in exprs:
            t = e.type
            if t.which_type not in ("integer", "boolean", "enumeration"):
                continue
            if t.which_type == "integer" and not t.integer.modulus:
                continue
            env = Env(ir)
            try:
                v = evaluate(e, env)
            except Unsupported:
                res["skipped"] += 1
                continue
            except Exception as x:  # pylint: disable=broad-except
                res["skipped"] += 1
                continue
            res["expressions"] += 1
            loc = str(e.source_location)

            def q(*fs, timeout=opts.get("timeout_ms", 15000)):
                s = z3.Solver()
                s.set("timeout", timeout)
                s.add(*env.constraints)
                s.add(*fs)
                r = str(s.check())
                return r, (s.model() if r == "sat" else None)

            def envdesc(m):
                return {str(k[-1][-1]) if isinstance(k[-1], tuple) else str(k): str(m.eval(t_, model_completion=True)) for k, t_ in list(env.vars.items())[:8]}

            if t.which_type == "integer":
                it = t.integer
                bad = []
                if it.minimum_value != "-infinity":
                    bad.append(v < int(it.minimum_value))
                if it.maximum_value != "infinity":
                    bad.append(v > int(it.maximum_value))
                if it.modulus == "infinity":
                    bad.append(v != int(it.modular_value))
                elif int(it.modulus) > 1:
                    bad.append(v % int(it.modulus) != int(it.modular_value))
                res["obligations"] += 1
                r, m = q(z3.Or(*bad)) if bad else ("unsat", None)
                if r == "unsat":
                    res["discharged"] += 1
                elif r == "sat":
                    res["candidates"].append({"module": emb, "location": loc, "what": "value %s outside the inferred (min=%s max=%s mod=%s rem=%s)" % (
                        m.eval(v, model_completion=True), it.minimum_value, it.maximum_value, it.modulus, it.modular_value), "env": envdesc(m)})
                else:
                    res["unknown"].append("%s %s: soundness query %s" % (emb, loc, r))
                # tightness where no variable occurs twice
                if env.vars and all(c == 1 for c in env.occurrences.values()) and it.modulus != "infinity":
                    for side, bound, infinite in (("min", it.minimum_value, "-infinity"), ("max", it.maximum_value, "infinity")):
                        if bound == infinite:
                            continue
                        res["obligations"] += 1
                        res["tight_checked"] += 1
                        r, m = q(v == int(bound))
                        if r == "sat":
                            res["discharged"] += 1
                        elif r == "unsat":
                            res["candidates"].append({"module": emb, "location": loc, "what": "inferred %s=%s is never attained although no variable occurs twice" % (side, bound), "env": {}})
                        else:
                            res["unknown"].append("%s %s: tightness query %s" % (emb, loc, r))
                if e.which_expression == "function" and e.function.function in (FM.UPPER_BOUND, FM.LOWER_BOUND):
                    # $upper_bound/$lower_bound are true bounds of their argument
                    try:
                        av = evaluate(e.function.args[0], env)
                        k = int(it.modular_value)
                        res["obligations"] += 1
                        r, m = q(av > k if e.function.function == FM.UPPER_BOUND else av < k)
                        if r == "unsat":
                            res["discharged"] += 1
                        elif r == "sat":
                            res["candidates"].append({"module": emb, "location": loc, "what": "$bound constant %d is not a bound: argument can be %s" % (k, m.eval(av, model_completion=True)), "env": envdesc(m)})
                        else:
                            res["unknown"].append("%s %s: bound query %s" % (emb, loc, r))
                    except Unsupported:
                        pass
                if len(res["samples"]) < 2 and env.vars:
                    res["samples"].append({"module": emb, "location": loc, "variables": len(env.vars),
                                           "annotation": [it.minimum_value, it.maximum_value, it.modulus, it.modular_value]})
            elif t.which_type == "boolean" and t.boolean.has_field("value"):
                res["obligations"] += 1
                r, m = q(v != z3.BoolVal(bool(t.boolean.value)))
                if r == "unsat":
                    res["discharged"] += 1
                elif r == "sat":
                    res["candidates"].append({"module": emb, "location": loc, "what": "expression folded to %s can be %s" % (t.boolean.value, not t.boolean.value), "env": envdesc(m)})
                else:
                    res["unknown"].append("%s %s: constant query %s" % (emb, loc, r))
            elif t.which_type == "enumeration" and t.enumeration.has_field("value"):
                res["obligations"] += 1
                r, m = q(v != int(t.enumeration.value))
                if r == "unsat":
                    res["discharged"] += 1
                elif r == "sat":
                    res["candidates"].append({"module": emb, "location": loc, "what": "enum expression folded to %s can be %s" % (t.enumeration.value, m.eval(v)), "env": envdesc(m)})
                else:
                    res["unknown"].append("%s %s: constant query %s" % (emb, loc, r))
    except Exception as x:  # pylint: disable=broad-except
        res["errors"].append("%s: %s" % (emb, "".join(traceback.format_exception(type(x), x, x.__traceback__))[-1200:]))
    return res


def run(rep, tier):
    mods = struct_check.corpus()
    jobs = [(emb, dirs, {"timeout_ms": 10000 if tier == "quick" else 60000}) for emb, dirs in mods]
    with multiprocessing.Pool(common.ncpu()) as pool:
        results = pool.map(check_module, jobs, chunksize=1)
    out = {"modules": len(results), "expressions": 0, "obligations": 0, "discharged": 0, "tight_checked": 0, "skipped": 0,
           "inconclusive": 0}
    for r in results:
        for k in ("expressions", "obligations", "discharged", "tight_checked", "skipped"):
            out[k] += r[k]
        for e in r["errors"][:2]:
            rep.harness_error(e)
        out["inconclusive"] += len(r["unknown"])
        for u in r["unknown"][:3]:
            rep.inconclusive_item(u)
        for s in r["samples"][:1]:
            rep.sample(s, cap=16)
        for c in r["candidates"][:3]:
            # the evaluator is the replay: the model is a concrete environment; report with it
            rep.violation({"layer": "c", "module": c["module"], "location": c["location"]},
                          "C05 layer c: %s at %s in %s with %s" % (c["what"], c["location"], c["module"], c["env"]), c)
    # inconclusive obligations are not counted as discharged; keep the proof-level totals consistent
    out["obligations"] -= out["inconclusive"]
    return out
