"""C03 -- field writes are range-checked, read back exactly, touch only their
own bits.  Leaf kernels through E2; write inference through E1 (c03w)."""

import json

from vf import common, kernels, kernel_check


def classify(cand):
    cfg = cand["cfg"]
    what = cand.get("what", "")
    key = {"type": cfg["ty"], "aspect": "other"}
    for tag, a in (("CouldWriteValue", "could"), ("TryToWrite", "try"), ("Read() == v", "readback"),
                   ("other bits", "neighbour_bits"), ("outside the container", "other_bytes"),
                   ("failed write", "failed_write")):
        if tag in what:
            key["aspect"] = a
            break
    if cfg["order"] == "Null":
        key["byte_order"] = "Null"
    if cfg["ty"] == "EnumS":
        key["field_narrower_than_underlying"] = cfg["w"] < cfg["ubits"]
    return key


def _interp(cfg, x, x_bits, fn):
    """Mathematical value of the argument as passed."""
    if cfg.ty in ("Int",) and fn == "":
        return x - (1 << 64) if x >> 63 else x
    if cfg.ty == "UInt" and fn == "":
        return x - (1 << 64) if x >> 63 else x
    if cfg.ty == "EnumS":
        x &= (1 << cfg.ubits) - 1
        return x - (1 << cfg.ubits) if x >> (cfg.ubits - 1) else x
    if cfg.ty == "Float":
        return x & ((1 << cfg.w) - 1)
    return x


def replay(cand):
    cfg = kernels.cfg_from_dict(cand["cfg"])
    n, data = cand["n"], list(cand["bytes"])
    x, fn = cand.get("x", 0), cand.get("fn", "")
    fn_kind = 2 if fn == "u" else 1
    xarg = x
    if cfg.ty == "EnumS":
        # pass sign-extended to the 64-bit stdin slot; the driver narrows to the enum's type
        v = _interp(cfg, x, cfg.ubits, fn)
        xarg = v % (1 << 64)
    obs = kernel_check.native_run(cfg, n, data, x=xarg, fn_kind=fn_kind, writable=True)
    if "crash" in obs:
        return True, "native run crashed: %s" % obs["crash"][:500], obs
    v = _interp(cfg, x, cand.get("x_bits", 64), fn)
    lo, hi = kernels.write_range(cfg)
    inrange = lo <= v <= hi
    present = n >= cfg.koff + cfg.nbytes
    if obs.get("could") != (1 if inrange else 0):
        return True, "CouldWriteValue(%d)=%s, reference %s" % (v, obs.get("could"), inrange), obs
    succeed = inrange and present
    if obs.get("try") != (1 if succeed else 0):
        return True, "TryToWrite(%d)=%s, reference %s" % (v, obs.get("try"), succeed), obs
    before = data[:n] + [0] * max(0, n - len(data))
    expect = list(before)
    if succeed:
        enc = v if cfg.ty != "Float" else v
        newc = kernels.py_encode(cfg, before[cfg.koff:cfg.koff + cfg.nbytes], enc)
        expect[cfg.koff:cfg.koff + cfg.nbytes] = newc
    if obs.get("after") != expect[:n]:
        return True, "buffer after write %s, reference %s" % (obs.get("after"), expect[:n]), obs
    return False, "native run agrees with the reference", obs


def main(tier):
    rep = common.Report("C03", tier, "model_checking")
    cfgs = kernels.config_space(tier, common.seed())
    if tier == "thorough":
        # the full space (every type x container x offset x width x order, ~115k configurations) is ~4 h of
        # solver time for the write direction; a third of it per run, rotated by the seed
        k = common.seed() % 3
        cfgs = cfgs[k::3]
    bcd_max = 16 if tier == "quick" else 32
    total = kernel_check.run_all("encode", cfgs, opts={"bcd_write_max": bcd_max})
    for e in total.errors[:5]:
        rep.harness_error(e)
    for u in total.unknown[:50]:
        rep.inconclusive_item(u)
    seen = {}
    replayed = 0
    for cand in total.candidates:
        key = classify(cand)
        sig = json.dumps(key, sort_keys=True)
        seen[sig] = seen.get(sig, 0) + 1
        if seen[sig] > 3:
            continue
        ok, observed, obs = replay(cand)
        replayed += 1
        if not ok:
            rep.harness_error("candidate did not reproduce natively: %s (%s) %r" % (cand.get("what"), observed, cand))
            continue
        if seen[sig] == 1 or rep.match_known(key) is None:
            rep.violation(key, "%s: %s [%s]" % (cand.get("what"), observed, cfg_repr(cand)), cand)
    if total.controls_total and total.controls_fired != total.controls_total:
        rep.harness_error("negative controls fired %d/%d" % (total.controls_fired, total.controls_total))
    if total.witnesses == 0:
        rep.harness_error("no reachability witness (vacuous)")
    for s in total.samples:
        rep.sample(s)
    from vf.checks import c03w, c03s
    wi = c03w.run(rep, tier)
    sl = c03s.run(rep, tier)
    rep.coverage.update({
        "states": total.configs,
        "transitions": total.queries + wi.get("queries", 0) + sl.get("queries", 0),
        "traces_validated_against_impl": replayed + sl.get("replayed", 0),
        "exhaustive": False,
        "configurations": total.configs, "functions_encoded": total.functions,
        "ir_instructions_executed": total.instrs, "queries": total.queries, "unsat": total.unsat,
        "reachability_witnesses": total.witnesses,
        "negative_controls_fired": "%d/%d" % (total.controls_fired, total.controls_total),
        "not_encoded": total.not_encoded[:20], "not_encoded_count": len(total.not_encoded),
        "solver_s": round(total.solver_s, 1), "compile_s": round(total.compile_s, 1),
        "candidates_classified": seen, "write_inference": wi, "structure_level": sl,
        "bounds": {"configurations": "quick: boundary-biased + seeded sample; thorough: every third configuration of the full space "
                                     "(type x container 8..64 x offset x width x LE/BE/Null, alignment variants rotated), the third chosen by the seed",
                   "buffer_length": "0..%d bytes" % kernel_check.NMAX, "initial_contents": "all", "value": "every value of the full-width argument type (int64_t and uint64_t overloads for UInt/Int; the enum's own type; the view's ValueType for Bcd)",
                   "bcd_write_width": "<= %d bits (division-by-10 chains beyond that do not bit-blast in time); CouldWriteValue for all widths" % bcd_max,
                   "outside": "Bcd writes wider than the bound; [requires] on leaf kernels (covered at structure level in C01)"},
        "explanation": "states = configurations; transitions = solver queries, each over all initial buffers, lengths and candidate values",
    })
    rep.assumptions += ["clang 14 -O2 LLVM IR is the implementation verified", "buffer base aligned as promised",
                        "reference encode from DESIGN.md A.1"]
    if total.not_encoded:
        rep.inconclusive_item("%d configurations not encoded (first: %s)" % (len(total.not_encoded), total.not_encoded[0]))
    return rep.finish()


def cfg_repr(cand):
    return repr(kernels.cfg_from_dict(cand["cfg"]))


def replay_file(path):
    with open(path) as f:
        obj = json.load(f)
    ok, observed, _ = replay(obj["replay"])
    print("replay %s: %s -> %s" % (path, "REPRODUCED" if ok else "did not reproduce", observed))
    if ok:
        print("VIOLATION property=C03 replay=%s" % path)
    return 1 if ok else 0
