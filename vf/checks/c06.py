"""C06 (integer text codec clause only) -- "Integer text encoding and decoding
are mutually inverse for every value of every width, and malformed numbers are
rejected rather than wrapped."

E2: runtime/cpp/emboss_text_util.h's DecodeInteger<T> and
WriteIntegerToTextStream<Stream, T> are compiled by clang -O2 to LLVM IR and
executed symbolically (vf/ll2smt.py); z3 decides, per query, over *all* texts
of the stated shape / all values of the type:

  decode   DecodeInteger(text) returns true only if every character after
           sign/prefix is a digit of the base or '_', there is at least one
           digit, the mathematical value fits T, and *result is exactly that
           value (no wrap); and it returns true for every in-range text in a
           documented number format (doc/language-reference.md, "Numeric
           constants"; doc/text-format.md refers to it)
  safety   no read outside the std::string's characters, no store outside
           *result, no division by zero, no assertion
  encode   WriteIntegerToTextStream(x, base, grouping) writes a text in one
           of the documented number formats; and
  rt       DecodeInteger(that text) == x, for every x of the type

A second layer (vf/checks/c06s.py, E1) decides the clause "fields marked Skip
are absent and fields marked Emit are present" where that decision is taken --
in the compiler -- with the attribute value as a symbolic choice.

The rest of the structure level of C06 (WriteToString / UpdateFromText of whole
views reading back equal: std::ostringstream, std::string growth, virtual
dispatch) is outside what the translator can execute and is NOT claimed -- see
DESIGN.md.
"""

import json
import multiprocessing
import os
import shutil
import subprocess
import time

import z3

from vf import common, cxx, ll2smt, rx

TYPES = [("u8", "uint8_t", False, 8), ("i8", "int8_t", True, 8), ("u16", "uint16_t", False, 16),
         ("i16", "int16_t", True, 16), ("u32", "uint32_t", False, 32), ("i32", "int32_t", True, 32),
         ("u64", "uint64_t", False, 64), ("i64", "int64_t", True, 64)]
TYPE = {t[0]: t for t in TYPES}
BASES = (2, 10, 16)

DRIVER = r"""
#include <cstdint>
#include <cstddef>
#include <string>
#include "runtime/cpp/emboss_text_util.h"
struct BufStream {
  char* out; unsigned cap; unsigned len;
  void Write(const char* s) { while (*s && len + 1 < cap) { out[len++] = *s++; } out[len] = 0; }
};
#define DEC(NAME, T) extern "C" bool dec_##NAME(const ::std::string* s, T* out) { \
  return ::emboss::support::DecodeInteger(*s, out); }
#define ENC1(NAME, T, B, G) extern "C" unsigned enc_##NAME##_b##B##_g##G(T v, char* out) { \
  BufStream s{out, 80, 0}; \
  ::emboss::support::WriteIntegerToTextStream(v, &s, static_cast< ::std::uint8_t>(B), G != 0); return s.len; }
#define ENC(NAME, T) ENC1(NAME, T, 2, 0) ENC1(NAME, T, 2, 1) ENC1(NAME, T, 10, 0) ENC1(NAME, T, 10, 1) \
  ENC1(NAME, T, 16, 0) ENC1(NAME, T, 16, 1)
#define BOTH(NAME, T) DEC(NAME, T) ENC(NAME, T)
BOTH(u8, uint8_t) BOTH(i8, int8_t) BOTH(u16, uint16_t) BOTH(i16, int16_t)
BOTH(u32, uint32_t) BOTH(i32, int32_t) BOTH(u64, uint64_t) BOTH(i64, int64_t)
"""

REPLAY_MAIN = r"""
#include <cstdio>
#include <cstdlib>
#include <cstring>
int main() {
  char mode[8]; char ty[8];
  if (scanf("%7s %7s", mode, ty) != 2) return 2;
  if (!strcmp(mode, "dec")) {
    unsigned long n; if (scanf("%lu", &n) != 1) return 2;
    char* p = static_cast<char*>(malloc(n ? n : 1));
    for (unsigned long i = 0; i < n; ++i) { unsigned b; if (scanf("%x", &b) != 1) return 2; p[i] = (char)b; }
    ::std::string s(p, n);
    free(p);
#define D(NAME, T) if (!strcmp(ty, #NAME)) { T v = 0; bool r = ::emboss::support::DecodeInteger(s, &v); \
      printf("ret %d value %lld uvalue %llu\n", r ? 1 : 0, (long long)v, (unsigned long long)v); return 0; }
    D(u8, uint8_t) D(i8, int8_t) D(u16, uint16_t) D(i16, int16_t) D(u32, uint32_t) D(i32, int32_t) D(u64, uint64_t) D(i64, int64_t)
    return 2;
  }
  if (!strcmp(mode, "rt")) {
    long long sv; unsigned long long uv; unsigned base; int grouping;
    if (scanf("%lld %llu %u %d", &sv, &uv, &base, &grouping) != 4) return 2;
    char out[96];
#define R(NAME, T, V) if (!strcmp(ty, #NAME)) { BufStream st{out, 80, 0}; T x = (T)V; \
      ::emboss::support::WriteIntegerToTextStream(x, &st, static_cast< ::std::uint8_t>(base), grouping != 0); \
      T back = 0; bool r = ::emboss::support::DecodeInteger(::std::string(out, st.len), &back); \
      printf("text %s\nret %d same %d\n", out, r ? 1 : 0, (r && back == x) ? 1 : 0); return 0; }
    R(u8, uint8_t, uv) R(i8, int8_t, sv) R(u16, uint16_t, uv) R(i16, int16_t, sv) R(u32, uint32_t, uv) R(i32, int32_t, sv)
    R(u64, uint64_t, uv) R(i64, int64_t, sv)
    return 2;
  }
  return 2;
}
"""

# documented number formats (doc/language-reference.md "Numeric constants"; doc/grammar.md token table)
DOC_NUMBER_PATTERNS = [
    r"[0-9]+", r"[0-9]{1,3}(?:_[0-9]{3})*",
    r"0x[0-9a-fA-F]+", r"0x_?[0-9a-fA-F]{1,4}(?:_[0-9a-fA-F]{4})*", r"0x_?[0-9a-fA-F]{1,8}(?:_[0-9a-fA-F]{8})*",
    r"0b[01]+", r"0b_?[01]{1,4}(?:_[01]{4})*", r"0b_?[01]{1,8}(?:_[01]{8})*",
]
S_ADDR, T_ADDR, O_ADDR = 0x10000, 0x20000, 0x30000
EXEC_BUDGET_S = int(os.environ.get("VERIF_EXEC_S", "240"))


def bv64(v):
    return z3.BitVecVal(v, 64)


# ----------------------------------------------------------------------
# reference semantics
# ----------------------------------------------------------------------


def _c(ch):
    return z3.BitVecVal(ord(ch), 8)


def _digit(ch):
    return z3.If(z3.And(z3.UGE(ch, _c("0")), z3.ULE(ch, _c("9"))), ch - _c("0"),
                 z3.If(z3.And(z3.UGE(ch, _c("a")), z3.ULE(ch, _c("f"))), ch - _c("a") + 10,
                       z3.If(z3.And(z3.UGE(ch, _c("A")), z3.ULE(ch, _c("F"))), ch - _c("A") + 10,
                             z3.BitVecVal(255, 8))))


def ref_decode(chars, signed, bits):
    """(accept_allowed, value): accept_allowed = every character after
    sign/prefix is a digit of the base or '_', at least one digit, and the
    mathematical value is in the range of the type; value = that value as a
    bits-wide vector.  Computed per (sign, prefix) case with a vector wide
    enough that nothing wraps."""
    n = len(chars)
    cases = []

    def body(o, base, neg, cond):
        b = chars[o:]
        per = {2: 1, 10: 4, 16: 4}[base]
        wd = max(bits + 8, per * len(b) + 8)
        acc = z3.BitVecVal(0, wd)
        valid = z3.BoolVal(len(b) > 0)
        ndig = z3.BoolVal(False)
        lim = (1 << (bits - 1)) if neg else (((1 << (bits - 1)) - 1) if signed else (1 << bits) - 1)
        for ch in b:
            isus = ch == _c("_")
            d = _digit(ch)
            isd = z3.ULT(d, z3.BitVecVal(base, 8))
            valid = z3.And(valid, z3.Or(isus, isd))
            ndig = z3.Or(ndig, isd)
            acc = z3.If(isus, acc, acc * base + z3.ZeroExt(wd - 8, d))
        ok = z3.And(valid, ndig, z3.ULE(acc, z3.BitVecVal(lim, wd)))
        v = z3.Extract(bits - 1, 0, acc)
        if neg:
            v = -v
        cases.append((cond, ok, v))

    def prefixes(o, neg, cond):
        if n >= o + 2:
            ishex = z3.And(chars[o] == _c("0"), z3.Or(chars[o + 1] == _c("x"), chars[o + 1] == _c("X")))
            isbin = z3.And(chars[o] == _c("0"), z3.Or(chars[o + 1] == _c("b"), chars[o + 1] == _c("B")))
            body(o + 2, 16, neg, z3.And(cond, ishex))
            body(o + 2, 2, neg, z3.And(cond, isbin))
            body(o, 10, neg, z3.And(cond, z3.Not(ishex), z3.Not(isbin)))
        else:
            body(o, 10, neg, cond)

    if signed and n >= 1:
        isneg = chars[0] == _c("-")
        prefixes(1, True, isneg)
        prefixes(0, False, z3.Not(isneg))
    else:
        prefixes(0, False, z3.BoolVal(True))
    ok = z3.BoolVal(False)
    v = z3.BitVecVal(0, bits)
    for cond, o, val in cases:
        ok = z3.If(cond, o, ok)
        v = z3.If(cond, val, v)
    return ok, v


_NFA = {}


def _nfa(pattern):
    if pattern not in _NFA:
        _NFA[pattern] = rx.NFA(rx.sre_parse.parse(pattern))
    return _NFA[pattern]


def _wide(chars):
    # 16-bit so that the signed comparisons in rx.atom_cond order code points 0..255 correctly
    return [z3.ZeroExt(8, c) for c in chars]


def doc_format(chars, signed):
    """z3 Bool: the text is a documented number format (optionally negated for signed types)."""
    w = _wide(chars)
    alts = [_nfa(p).accepts(w) for p in DOC_NUMBER_PATTERNS]
    if signed and chars:
        neg = [z3.And(chars[0] == _c("-"), _nfa(p).accepts(w[1:])) for p in DOC_NUMBER_PATTERNS]
        alts += neg
    return z3.Or(*alts)


def py_decode(text, signed, bits):
    """Independent Python reference on concrete bytes -> (accept_allowed, value, documented_format)."""
    import re
    s = text.decode("latin-1")
    neg = False
    rest = s
    if signed and rest.startswith("-"):
        neg, rest = True, rest[1:]
    base = 10
    if len(rest) >= 2 and rest[0] == "0" and rest[1] in "xX":
        base, rest = 16, rest[2:]
    elif len(rest) >= 2 and rest[0] == "0" and rest[1] in "bB":
        base, rest = 2, rest[2:]
    alphabet = {2: "01", 10: "0123456789", 16: "0123456789abcdefABCDEF"}[base]
    digits = [c for c in rest if c != "_"]
    valid = len(rest) > 0 and all(c in alphabet for c in digits) and len(digits) > 0
    value = None
    if valid:
        value = int("".join(digits), base)
        if neg:
            value = -value
        lo, hi = (-(1 << (bits - 1)), (1 << (bits - 1)) - 1) if signed else (0, (1 << bits) - 1)
        if not lo <= value <= hi:
            valid = False
    body = s[1:] if (signed and s.startswith("-")) else s
    documented = any(re.fullmatch(p, body) for p in DOC_NUMBER_PATTERNS)
    return valid, value, documented


# ----------------------------------------------------------------------
# symbolic runs
# ----------------------------------------------------------------------

_MODULE = {}


def _module(ir_path):
    if ir_path not in _MODULE:
        with open(ir_path) as f:
            _MODULE[ir_path] = ll2smt.parse(f.read())
    return _MODULE[ir_path]


def _executor(ir_path, pre=(), prune_all=False):
    ex = ll2smt.Executor(_module(ir_path), unroll=90, check_flags=False)
    ex.prune = list(pre)
    ex.prune_all = prune_all
    ex.deadline = time.time() + EXEC_BUDGET_S
    return ex


def _store_le(mem, addr, value_bv, nbytes):
    for i in range(nbytes):
        mem = z3.Store(mem, bv64(addr + i), z3.Extract(8 * i + 7, 8 * i, value_bv))
    return mem


def run_decode(ir_path, ty, chars, mem=None, length=None, pre=(), prune_all=False):
    """Executes dec_<ty> on a std::string object (libstdc++ layout: data pointer, length) whose
    characters are `chars`.  Returns (ret Bool, value BV(bits), result, executor)."""
    _, _, signed, bits = TYPE[ty]
    ex = _executor(ir_path, pre, prune_all)
    if mem is None:
        mem = ex.initial_memory(cxx.fresh_memory(), strings=False)
        for i, c in enumerate(chars):
            mem = z3.Store(mem, bv64(T_ADDR + i), c)
    n = len(chars)
    mem = _store_le(mem, S_ADDR, bv64(T_ADDR), 8)
    mem = _store_le(mem, S_ADDR + 8, bv64(n) if length is None else length, 8)
    regions = [ll2smt.Region("string", bv64(S_ADDR), bv64(32), writable=False),
               ll2smt.Region("text", bv64(T_ADDR), bv64(n) if length is None else length, writable=False),
               ll2smt.Region("result", bv64(O_ADDR), bv64(bits // 8))]
    r = ex.run("dec_" + ty, [bv64(S_ADDR), bv64(O_ADDR)], mem, regions)
    ret = r.ret if z3.is_bool(r.ret) else (z3.Extract(0, 0, r.ret) == 1)
    bs = [z3.Select(r.mem, bv64(O_ADDR + i)) for i in reversed(range(bits // 8))]
    got = bs[0] if len(bs) == 1 else z3.Concat(*bs)
    return ret, got, r, ex


def _check(solver_ms, *assertions):
    s = z3.Solver()
    s.set("timeout", solver_ms)
    s.add(*assertions)
    t0 = time.time()
    res = str(s.check())
    return res, (s.model() if res == "sat" else None), time.time() - t0


def _bad_obligations(r):
    bad = [o.violated for o in r.obligations]
    return z3.Or(*bad) if bad else z3.BoolVal(False)


def job_decode(args):
    """All texts prefix + (tail symbolic characters) for one type."""
    ir_path, ty, prefix, tail, solver_ms = args[:5]
    excl = args[5] if len(args) > 5 else ()  # excl[i]: byte values the i-th free character does not take
    _, _, signed, bits = TYPE[ty]
    t0 = time.time()
    out = {"job": "decode", "type": ty, "prefix": prefix.decode("latin-1"), "free_chars": tail, "queries": 0,
           "solver_s": 0.0, "candidates": [], "unknown": [], "errors": [], "witness": False,
           "excluded": ["".join(chr(b) for b in e) for e in excl]}
    try:
        free = [z3.BitVec("c%d" % i, 8) for i in range(tail)]
        chars = [z3.BitVecVal(b, 8) for b in prefix] + free
        pre = [free[i] != z3.BitVecVal(b, 8) for i, e in enumerate(excl) if i < tail for b in e]
        # with the precondition the sign and the base are determined: branches on them are resolved while executing
        ret, got, r, ex = run_decode(ir_path, ty, chars, pre=pre, prune_all=bool(pre))
        out["instrs"] = r.instrs
        out["obligation_sites"] = len(r.obligations)
        out["prune_queries"] = ex.prune_queries
        ok, v = ref_decode(chars, signed, bits)
        doc = doc_format(chars, signed)
        queries = [
            ("safety", z3.Or(_bad_obligations(r), r.unwind_exceeded, z3.Not(r.ret_guard))),
            ("accepted-but-malformed-or-out-of-range", z3.And(ret, z3.Not(ok))),
            ("accepted-with-wrong-value", z3.And(ret, ok, got != v)),
            ("documented-format-rejected", z3.And(z3.Not(ret), ok, doc)),
        ]
        for name, q in queries:
            res, model, dt = _check(solver_ms, q, *pre)
            out["queries"] += 1
            out["solver_s"] += dt
            if res == "sat":
                text = bytes(model.eval(c, model_completion=True).as_long() for c in chars)
                out["candidates"].append({"kind": "decode", "what": name, "type": ty, "text": list(text)})
            elif res != "unsat":
                out["unknown"].append("decode %s %s prefix=%r free=%d: solver %s" % (ty, name, prefix, tail, res))
        res, _, dt = _check(solver_ms, ret if (tail or prefix) else z3.Not(ret), *pre)
        out["queries"] += 1
        out["solver_s"] += dt
        out["witness"] = res == "sat"
    except ll2smt.NotEncoded as e:
        (out["unknown"] if "budget" in str(e) else out["errors"]).append(
            "decode %s prefix=%r free=%d: not encoded: %s" % (ty, prefix, tail, e))
    except Exception as e:  # noqa
        import traceback
        out["errors"].append("decode %s prefix=%r free=%d: %s" % (ty, prefix, tail, traceback.format_exc()[-600:]))
    out["wall_s"] = time.time() - t0
    return out


def digit_ranges(ty, base):
    """Case split of the value range by digit count (keeps each encoder run's loop count concrete)."""
    _, _, signed, bits = TYPE[ty]
    lo, hi = (-(1 << (bits - 1)), (1 << (bits - 1)) - 1) if signed else (0, (1 << bits) - 1)
    out = [(0, 0)]
    k = 1
    while k <= hi:
        out.append((k, min(k * base - 1, hi)))
        k *= base
    if signed:
        k = 1
        while k <= -lo - 1:
            out.append((max(-(k * base - 1), lo + 1), -k))
            k *= base
        out.append((lo, lo))  # the lowest value takes its own path through the encoder
    return out


def job_roundtrip(args):
    """enc_<ty>_b<base>_g<grouping>(x) for every x in [lo, hi], then DecodeInteger of the text written."""
    ir_path, ty, base, grouping, lo, hi, solver_ms = args
    _, _, signed, bits = TYPE[ty]
    t0 = time.time()
    out = {"job": "roundtrip", "type": ty, "base": base, "grouping": grouping, "range": [lo, hi], "queries": 0,
           "solver_s": 0.0, "candidates": [], "unknown": [], "errors": [], "witness": False}
    try:
        x = z3.BitVec("x", bits)
        if signed:
            pre = [x >= z3.BitVecVal(lo, bits), x <= z3.BitVecVal(hi, bits)]
        else:
            pre = [z3.UGE(x, z3.BitVecVal(lo, bits)), z3.ULE(x, z3.BitVecVal(hi, bits))]
        ex = _executor(ir_path, pre, prune_all=True)
        mem0 = ex.initial_memory(cxx.fresh_memory(), strings=24)
        regions = [ll2smt.Region("out", bv64(T_ADDR), bv64(80))]
        fn = "enc_%s_b%d_g%d" % (ty, base, grouping)
        r = ex.run(fn, [x, bv64(T_ADDR)], mem0, regions)
        out["instrs"] = r.instrs
        length = z3.ZeroExt(32, r.ret) if r.ret.size() == 32 else r.ret
        res, model, dt = _check(solver_ms, *pre, z3.Or(_bad_obligations(r), r.unwind_exceeded, z3.Not(r.ret_guard)))
        out["queries"] += 1
        out["solver_s"] += dt
        if res == "sat":
            out["candidates"].append({"kind": "roundtrip", "what": "encoder-safety", "type": ty, "base": base,
                                      "grouping": grouping, "x": model.eval(x, model_completion=True).as_long()})
        elif res != "unsat":
            out["unknown"].append("encode %s base %d grouping %d [%d,%d] safety: %s" % (ty, base, grouping, lo, hi, res))
        # the text's length is fixed by the digit count in this range: find it, then prove it
        res, model, dt = _check(solver_ms, *pre)
        out["queries"] += 1
        out["solver_s"] += dt
        if res != "sat":
            raise RuntimeError("range precondition unsatisfiable")
        out["witness"] = True
        n = model.eval(length, model_completion=True).as_long()
        res, model, dt = _check(solver_ms, *pre, length != bv64(n))
        out["queries"] += 1
        out["solver_s"] += dt
        if res == "sat":
            # grouping makes the length vary inside a digit-count class only if the encoder is wrong
            out["candidates"].append({"kind": "roundtrip", "what": "text-length-varies-within-digit-count", "type": ty,
                                      "base": base, "grouping": grouping,
                                      "x": model.eval(x, model_completion=True).as_long()})
            out["wall_s"] = time.time() - t0
            return out
        if res != "unsat":
            out["unknown"].append("encode %s base %d grouping %d [%d,%d] length: %s" % (ty, base, grouping, lo, hi, res))
            out["wall_s"] = time.time() - t0
            return out
        chars = [z3.simplify(z3.Select(r.mem, bv64(T_ADDR + i))) for i in range(n)]
        out["text_length"] = n
        # documented output format
        # the text must be in one of the documented number formats (the property does not fix the group width)
        fmt = doc_format(chars, signed)
        res, model, dt = _check(solver_ms, *pre, z3.Not(fmt))
        out["queries"] += 1
        out["solver_s"] += dt
        if res == "sat":
            out["candidates"].append({"kind": "roundtrip", "what": "encoder-output-format", "type": ty, "base": base,
                                      "grouping": grouping, "x": model.eval(x, model_completion=True).as_long()})
        elif res != "unsat":
            out["unknown"].append("encode %s base %d grouping %d [%d,%d] format: %s" % (ty, base, grouping, lo, hi, res))
        # decode what was written (same memory, the std::string points at the encoder's output)
        ret, got, r2, ex2 = run_decode(ir_path, ty, chars, mem=r.mem, pre=pre, prune_all=True)
        out["instrs"] += r2.instrs
        res, model, dt = _check(solver_ms, *pre, z3.Or(_bad_obligations(r2), r2.unwind_exceeded, z3.Not(ret), got != x))
        out["queries"] += 1
        out["solver_s"] += dt
        if res == "sat":
            out["candidates"].append({"kind": "roundtrip", "what": "decode(encode(x)) != x", "type": ty, "base": base,
                                      "grouping": grouping, "x": model.eval(x, model_completion=True).as_long()})
        elif res != "unsat":
            out["unknown"].append("roundtrip %s base %d grouping %d [%d,%d]: %s" % (ty, base, grouping, lo, hi, res))
    except ll2smt.NotEncoded as e:
        (out["unknown"] if "budget" in str(e) else out["errors"]).append(
            "roundtrip %s base %d grouping %d [%d,%d]: not encoded: %s" % (ty, base, grouping, lo, hi, e))
    except Exception as e:  # noqa
        import traceback
        out["errors"].append("roundtrip %s base %d grouping %d [%d,%d]: %s" % (ty, base, grouping, lo, hi,
                                                                            traceback.format_exc()[-600:]))
    out["wall_s"] = time.time() - t0
    return out


def _run_job(job):
    return job[0](job[1])


# ----------------------------------------------------------------------
# native replay
# ----------------------------------------------------------------------

_REPLAY_EXE = {}


def _replay_exe():
    if "exe" not in _REPLAY_EXE:
        d = common.scratch_dir("verif-r6-")
        src = os.path.join(d, "replay.cc")
        with open(src, "w") as f:
            f.write(DRIVER + REPLAY_MAIN)
        exe = os.path.join(d, "replay")
        cxx.compile_native(src, exe)
        _REPLAY_EXE["exe"] = exe
    return _REPLAY_EXE["exe"]


def replay(c):
    exe = _replay_exe()
    ty = c["type"]
    _, _, signed, bits = TYPE[ty]
    if c["kind"] == "decode":
        text = bytes(c["text"])
        stdin = "dec %s %d %s\n" % (ty, len(text), " ".join("%x" % b for b in text))
        rc, out, err = cxx.run_native(exe, stdin)
        if rc != 0:
            return True, "native DecodeInteger<%s>(%r) crashed: %s" % (ty, text, (err or out)[-300:])
        parts = out.split()
        ret = int(parts[1])
        val = int(parts[3]) if signed else int(parts[5])
        allowed, value, documented = py_decode(text, signed, bits)
        if ret and not allowed:
            return True, "DecodeInteger<%s>(%r) returned true with value %d; the text is not a number of the type (%s)" % (
                ty, text, val, "no digits / bad character / out of range")
        if ret and val != value:
            return True, "DecodeInteger<%s>(%r) returned %d, mathematical value %d" % (ty, text, val, value)
        if not ret and allowed and documented:
            return True, "DecodeInteger<%s>(%r) rejected a documented in-range number (%d)" % (ty, text, value)
        return False, "native run agrees with the reference (ret=%d value=%d)" % (ret, val)
    x = c["x"]
    sx = x - (1 << bits) if (signed and x >> (bits - 1)) else x
    stdin = "rt %s %d %d %d %d\n" % (ty, sx if signed else 0, x if not signed else 0, c["base"], c["grouping"])
    rc, out, err = cxx.run_native(exe, stdin)
    if rc != 0:
        return True, "native encode/decode of %d (%s, base %d) crashed: %s" % (sx, ty, c["base"], (err or out)[-300:])
    lines = out.splitlines()
    text = lines[0][5:] if lines else ""
    same = "same 1" in out
    import re
    fmt_ok = py_decode(text.encode("latin-1"), signed, bits)[2]
    want = _py_encode(sx, c["base"], c["grouping"])
    if not same:
        return True, "%s %d in base %d%s is written as %r, which DecodeInteger does not read back as the same value" % (
            ty, sx, c["base"], " grouped" if c["grouping"] else "", text)
    if not fmt_ok:
        return True, "%s %d in base %d%s is written as %r, which is not a documented number format (expected e.g. %r)" % (
            ty, sx, c["base"], " grouped" if c["grouping"] else "", text, want)
    return False, "native round trip fine (%r)" % text


def _py_encode(v, base, grouping):
    neg = v < 0
    v = abs(v)
    digs = {2: "{:b}", 10: "{:d}", 16: "{:x}"}[base].format(v)
    if grouping:
        g = {2: 8, 10: 3, 16: 4}[base]
        parts = []
        while digs:
            parts.insert(0, digs[-g:])
            digs = digs[:-g]
        digs = "_".join(parts)
    return ("-" if neg else "") + {2: "0b", 10: "", 16: "0x"}[base] + digs


def classify(c):
    if c["kind"] == "decode":
        text = bytes(c["text"]).decode("latin-1")
        body = text.lstrip("-")
        if body[:2].lower() in ("0x", "0b"):
            body = body[2:]
        return {"kind": "decode", "what": c["what"], "no_digits": not any(ch.isalnum() for ch in body)}
    return {"kind": "roundtrip", "what": c["what"], "base": c["base"], "grouping": c["grouping"]}


# ----------------------------------------------------------------------
# job lists
# ----------------------------------------------------------------------


def limit_texts(ty):
    """Texts of the type's limits in every base, the seeds of the boundary families."""
    _, _, signed, bits = TYPE[ty]
    hi = (1 << (bits - 1)) - 1 if signed else (1 << bits) - 1
    out = []
    for base in BASES:
        out.append(_py_encode(hi, base, 0))
        if signed:
            out.append(_py_encode(-(1 << (bits - 1)), base, 0))
    return out


def decode_jobs(ir_path, tier, solver_ms):
    jobs = []
    lall = 6 if tier == "quick" else 7  # all texts of up to this many characters
    ktail = 4 if tier == "quick" else 6
    for ty, _, signed, bits in TYPES:
        # all texts of each length, partitioned so that sign and base are fixed inside a family:
        #   [-] d...      first character not '0' (and not '-')
        #   [-] 0         alone
        #   [-] 0 c...    second character not one of xXbB
        #   [-] 0x / 0X / 0b / 0B followed by anything
        for sign in ([b"", b"-"] if signed else [b""]):
            not_first = (ord("0"), ord("-")) if (signed and not sign) else (ord("0"),)
            for n in range(0, lall + 1 - len(sign)):
                if n == 0:
                    jobs.append((job_decode, (ir_path, ty, sign, 0, solver_ms)))
                    continue
                jobs.append((job_decode, (ir_path, ty, sign, n, solver_ms, (not_first,))))
                if n == 1:
                    jobs.append((job_decode, (ir_path, ty, sign + b"0", 0, solver_ms)))
                    continue
                jobs.append((job_decode, (ir_path, ty, sign + b"0", n - 1, solver_ms, (tuple(b"xXbB"),))))
                for pfx in (b"0x", b"0X", b"0b", b"0B"):
                    jobs.append((job_decode, (ir_path, ty, sign + pfx, n - 2, solver_ms)))
        seen = set()
        for lim in limit_texts(ty):
            digits = lim.lstrip("-")
            hexbin = digits[:2] in ("0x", "0b")
            if hexbin:
                digits = digits[2:]
            lead = lim[:len(lim) - len(digits)]
            if hexbin:
                # shifts and masks only: the whole digit string can be free
                cap = 8 if lim.startswith("-") else 16  # the negative path costs ~20x more per free digit
                if tier == "quick":
                    ks = sorted({1, 2, min(len(digits), cap)})
                else:
                    # measured under load with a 600 s cap: the negative path stays decidable up to 12 free digits,
                    # positive binary up to 20, positive hexadecimal for the whole digit string
                    neg = lim.startswith("-")
                    is_hex = lim.lstrip("-")[:2] == "0x"
                    top = 12 if neg else (len(digits) if is_hex else 20)
                    ks = sorted(set(range(1, min(len(digits), top) + 1)))
            else:
                ks = range(1, min(ktail, len(digits) - 1) + 1)
            for k in ks:
                if k > len(digits):
                    continue
                head = (lead + digits[:len(digits) - k]).encode()
                for extra in (0, 1):
                    key = (head, k + extra)
                    if key in seen or not head:
                        continue
                    if not hexbin and k + extra > ktail:
                        continue  # decimal: at most ktail free characters (7 already leave the solver undecided)
                    seen.add(key)
                    jobs.append((job_decode, (ir_path, ty, head, k + extra, solver_ms)))
    return jobs


def roundtrip_jobs(ir_path, tier, solver_ms):
    jobs = []
    for ty, _, signed, bits in TYPES:
        for base in BASES:
            if base == 10 and bits > 16:
                continue  # outside the bound: the 10^k chain (see "outside")
            for grouping in (0, 1):
                for lo, hi in digit_ranges(ty, base):
                    if base == 2 and bits == 64 and lo < 0 and lo != hi and -hi >= (1 << (24 if tier == "quick" else 40)):
                        continue  # negative 64-bit binary beyond 24 (quick) / 40 (thorough) digits: minutes per query
                    jobs.append((job_roundtrip, (ir_path, ty, base, grouping, lo, hi, solver_ms)))
    return jobs


def main(tier):
    rep = common.Report("C06", tier, "model_checking")
    d = common.scratch_dir("verif-c06-")
    src = os.path.join(d, "codec.cc")
    with open(src, "w") as f:
        f.write(DRIVER)
    ir_path = os.path.join(d, "codec.ll")
    cxx.compile_ir(src, ir_path)
    solver_ms = int(os.environ.get("VERIF_QUERY_MS", "0") or (60000 if tier == "quick" else 600000))
    jobs = decode_jobs(ir_path, tier, solver_ms) + roundtrip_jobs(ir_path, tier, solver_ms)
    stats = {"decode_jobs": 0, "roundtrip_jobs": 0, "queries": 0, "solver_s": 0.0, "instrs": 0, "witnesses": 0,
             "prune_queries": 0}
    cands = []
    slow = []
    with multiprocessing.Pool(common.ncpu(), maxtasksperchild=8) as pool:
        for out in pool.imap_unordered(_run_job, jobs):
            stats[out["job"] + "_jobs"] += 1
            stats["queries"] += out["queries"]
            stats["solver_s"] += out["solver_s"]
            stats["instrs"] += out.get("instrs", 0)
            stats["prune_queries"] += out.get("prune_queries", 0)
            stats["witnesses"] += 1 if out["witness"] else 0
            for e in out["errors"]:
                rep.harness_error(e)
            for u in out["unknown"]:
                rep.inconclusive_item(u)
            cands += out["candidates"]
            if out["wall_s"] > 60:
                print("slow job: %.0fs %s" % (out["wall_s"], {k: out[k] for k in ("job", "type", "prefix", "free_chars", "base", "grouping", "range") if k in out}), flush=True)
            slow.append((round(out["wall_s"], 1), "%s %s %s" % (out["job"], out["type"], out.get("prefix", out.get("range")))
                         + (" free=%d" % out["free_chars"] if "free_chars" in out else " base %d" % out["base"])))
            if out["job"] == "decode" and out["free_chars"] >= 4:
                rep.sample({k: out[k] for k in ("type", "prefix", "free_chars", "queries", "wall_s") if k in out}, cap=6)
            if out["job"] == "roundtrip" and out.get("text_length", 0) > 20:
                rep.sample({k: out[k] for k in ("type", "base", "grouping", "range", "text_length", "wall_s") if k in out}, cap=12)
    seen = {}
    replayed = 0
    for c in cands:
        key = classify(c)
        sig = json.dumps(key, sort_keys=True)
        seen[sig] = seen.get(sig, 0) + 1
        if seen[sig] > 3:
            continue
        ok, observed = replay(c)
        replayed += 1
        if not ok:
            rep.harness_error("candidate did not reproduce natively: %r (%s)" % (c, observed))
            continue
        if seen[sig] == 1 or rep.match_known(key) is None:
            rep.violation(key, observed, c)
    if stats["witnesses"] == 0:
        rep.harness_error("no reachability witness (vacuous)")
    # clause "fields marked Skip are absent and fields marked Emit are present": decided in the compiler (E1)
    from vf.checks import c06s
    text_output = c06s.run(rep)
    replayed += text_output["text_output_replayed"]
    stats["solver_s"] = round(stats["solver_s"], 1)
    rep.coverage.update({
        "states": stats["decode_jobs"] + stats["roundtrip_jobs"],
        "transitions": stats["queries"],
        "traces_validated_against_impl": replayed,
        "exhaustive": False,
        "functions_encoded": ["emboss::support::DecodeInteger<T>", "emboss::support::WriteIntegerToTextStream<BufStream,T>",
                              "for T in uint8_t..int64_t (clang -O2 LLVM IR)"],
        "candidates_classified": seen,
        "stats": stats,
        "text_output_layer": text_output,
        "slowest_jobs": sorted(slow, reverse=True)[:8],
        "bounds": {
            "decode_all_texts_up_to": "%d characters (every byte value), each of the 8 integer types" % (6 if tier == "quick" else 7),
            "decode_boundary_families": "the type's limits written in base 2/10/16: a concrete head of the limit's text followed by "
                                        "k or k+1 free characters; k up to the full digit string for hexadecimal%s, "
                                        "k <= %d for decimal" % (" and binary" if tier != "quick" else "; k <= 16 for binary",
                                                                  4 if tier == "quick" else 6),
            "roundtrip": "every value of every type for base 2 and 16 (with and without digit grouping), split by digit count"
                         + "; negative 64-bit values in base 2 only down to -2^%d (and the lowest value itself)" % (24 if tier == "quick" else 40)
                         + "; base 10 for the 8- and 16-bit types",
            "outside": "decimal texts with more than the stated number of free characters (the 10^k multiplication chain is beyond "
                       "the bit-vector solvers: 7 free digits take 40-150 s, 10 time out in z3 and cvc5, also with "
                       "--solve-bv-as-int), base-10 round trip of 32- and 64-bit values (same reason); the structure level of C06 (WriteToString/UpdateFromText of views, Skip/Emit, field order, options other than "
                       "base/grouping) -- std::ostringstream and std::string growth are not encodable",
        },
    })
    rep.assumptions += ["std::string has the libstdc++ layout {char* data; size_t length; ...} (the harness builds the object in "
                        "memory; native replays use a real std::string)",
                        "concrete addresses for the string object, its characters and the result (the code does not inspect addresses)",
                        "underscore placement: DecodeInteger may accept '_' anywhere after the first character; the check only requires "
                        "documented formats to be accepted and everything accepted to be digits/underscores with the exact value",
                        "clang 14 x86-64 -O2 IR"]
    return rep.finish()


def replay_file(path):
    with open(path) as f:
        obj = json.load(f)
    if obj["replay"].get("kind") == "emission_order":
        from vf.checks import c06s
        ok, observed = c06s.replay_order()
    elif obj["replay"].get("kind") == "text_output":
        from vf.checks import c06s
        r = obj["replay"]
        ok, observed = c06s.replay({"kind": r["field_kind"], "attr": r["attr"], "expected": r["expected"]})
    else:
        ok, observed = replay(obj["replay"])
    print("replay %s: %s -> %s" % (path, "REPRODUCED" if ok else "did not reproduce", observed))
    if ok:
        print("VIOLATION property=C06 replay=%s" % path)
    return 1 if ok else 0
