"""C04 structure level -- placeholder until the corpus driver lands."""


def run(rep, tier):
    return {"structures": 0, "queries": 0, "replayed": 0, "note": "not built yet"}
