"""C04 structure level: checked entry points of every corpus structure."""

import json
import os
import shutil
import subprocess

from vf import common, cxx, front, structs, struct_check
from vf.checks import c01


def replay(c):
    """Native run under ASan+UBSan with runtime checks on: reproduces if the
    process is killed by a sanitizer or an assertion."""
    d = common.scratch_dir("verif-r4-")
    try:
        ir = front.compile_module(c["module"], c["import_dirs"], d)
        src, entries = structs.write_driver(ir, c["module"], d, align=c.get("align", 1), writable=True)
        nparams = len(c["params"])
        call = "%s(p, n%s)" % (c["fn"], "".join(", a[%d]" % i for i in range(nparams)))
        if c.get("kind") == "wtry":
            x = c.get("x", 0)
            bits = c.get("x_bits", 64)
            call = "%s(p, n%s, static_cast<decltype(T_probe())>(%dULL))" % (c["fn"], "".join(", a[%d]" % i for i in range(nparams)), x)
            call = "%s(p, n%s, (%s)%dULL)" % (c["fn"], "".join(", a[%d]" % i for i in range(nparams)),
                                              {8: "unsigned char", 16: "unsigned short", 32: "unsigned", 64: "unsigned long long"}.get(bits, "unsigned long long"), x)
        main = os.path.join(d, "main.cc")
        body = c01.REPLAY_MAIN
        # malloc under ASan returns 16-byte aligned blocks, so the exact-size block already satisfies align <= 16
        if c.get("null"):
            body = body.replace("unsigned long long r = (unsigned long long)CALL;",
                                "free(p); p = nullptr; unsigned long long r = (unsigned long long)CALL;").replace("  free(p);\n  return 0;", "  return 0;")
        with open(main, "w") as f:
            f.write('#include "%s"\n#define CALL %s\n%s' % (os.path.basename(src), call, body))
        exe = os.path.join(d, "replay")
        cxx.compile_native(main, exe, includes=[d])
        pvals = list(c["params"].values())
        stdin = "%d\n%s\n%s\n" % (c["n"], " ".join("%x" % b for b in c["bytes"]),
                                   " ".join(str(v - (1 << 64) if v >> 63 else v) for v in pvals))
        try:
            rc, out, err = cxx.run_native(exe, stdin)
        except subprocess.TimeoutExpired:
            return True, "native run timed out"
        if rc != 0:
            text = err or out
            keys = [l for l in text.splitlines() if "ERROR:" in l or "runtime error" in l or "SUMMARY:" in l or "Assertion" in l]
            return True, "sanitizer/assert report: %s" % ("\n".join(keys[:5]) or text[-400:])
        return False, "native run finished cleanly"
    finally:
        shutil.rmtree(d, ignore_errors=True)


def run(rep, tier):
    mods = struct_check.corpus()
    if tier == "quick":
        mods = [m for m in mods if m[0] in c01.QUICK_MODULES[:6] + ["testdata/alignments.emb"] or struct_check.in_quick_corpus(m[0])]
    opts = {"nmax": 16 if tier == "quick" else 40, "aligns": (4,) if tier == "quick" else (4, 8)}
    if tier == "quick":
        # aligned-view variants only where nesting/offsets make alignment bookkeeping interesting
        opts["align_modules"] = ["testdata/alignments.emb", "testdata/bits.emb", "nested_dyn.emb", "params.emb", "byteorder.emb"]
    results = struct_check.run_corpus(struct_check.check_module_c04, opts, mods)
    out = {"structures": 0, "queries": 0, "replayed": 0, "entry_point_runs": 0, "obligation_sites_by_kind": {},
           "witnesses": 0, "modules": len(results), "not_encoded": [], "outside_claim": []}
    seen = {}
    for r in results:
        out["structures"] += r.structures
        out["queries"] += r.queries
        out["entry_point_runs"] += r.entries
        out["witnesses"] += r.witnesses
        out["not_encoded"] += ["%s: %s" % (r.module, x) for x in r.not_encoded][:5]
        out["outside_claim"] += ["%s: %s (%s)" % (r.module, a, b) for a, b in r.skipped][:5]
        for k, v in r.obligation_sites.items():
            out["obligation_sites_by_kind"][k] = out["obligation_sites_by_kind"].get(k, 0) + v
        for e in r.errors[:3]:
            rep.harness_error(e)
        for u in r.unknown[:10]:
            rep.inconclusive_item("%s: %s" % (r.module, u))
        for c in r.candidates:
            key = {"level": "structure", "module": c["module"], "struct": c["struct"], "kind": c["ob_kind"],
                   "entry": c["kind"], "path": ".".join(c["path"])}
            sig = json.dumps(key, sort_keys=True)
            seen[sig] = seen.get(sig, 0) + 1
            if seen[sig] > 1:
                continue
            ok, observed = replay(c)
            out["replayed"] += 1
            if not ok:
                rep.inconclusive_item("candidate without native reproduction: %s (%s)" % (c["what"], observed))
                continue
            rep.violation(key, "%s: %s (n=%d bytes=%s params=%s)" % (c["what"], observed, c["n"], c["bytes"], c["params"]), c)
    out["not_encoded"] = out["not_encoded"][:20]
    out["outside_claim"] = out["outside_claim"][:20]
    return out
