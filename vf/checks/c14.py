"""C14 -- physical layout and attribute rules are enforced exactly as
documented.  E1: the real constraint functions are executed on real IR (a
small module parsed by the current front end, so the real prelude attributes
are what is evaluated) with the numeric quantity -- a size, a width, an enum
value, maximum_bits -- replaced by an unbounded symbolic integer; z3 decides
"rejected iff the documented rule is violated" for all integers."""

import copy
import json
import os
import tempfile
import time
import traceback

import z3

from vf import common, pysym
from vf.pysym import SymInt, SymIntStr

from compiler.front_end import constraints, attribute_checker, glue
from compiler.util import ir_data, ir_util, ir_data_utils

BASE = """
[$default byte_order: "LittleEndian"]
enum En:
  [maximum_bits: 8]
  [is_signed: false]
  VALUE = 1
bits Bi:
  0 [+8]  UInt  x
struct St:
  0 [+1]  UInt   u
  1 [+1]  Int    i
  2 [+1]  Bcd    b
  3 [+4]  Float  f
  7 [+1]  En     e
  8 [+1]  Bi     bi
  9 [+1]  bits:
    0 [+1]  Flag  fl
  10 [+4]  UInt:8[4]  arr
"""

INSTRUMENTED = (constraints, attribute_checker, ir_util)


def load_ir():
    def reader(name):
        if name == "base.emb":
            return BASE, None
        return None, ["not found"]

    from compiler.front_end import emboss_front_end
    real = emboss_front_end._find_in_dirs_and_read([common.REPO])

    def rd(name):
        if name == "base.emb":
            return BASE, None
        return real(name)

    ir, _, errors = glue.parse_emboss_file("base.emb", rd)
    if errors:
        raise RuntimeError("base module rejected: %r" % (errors,))
    return ir


def find_type(ir, name):
    for t in ir.module[0].type:
        if t.name.name.text == name:
            return t
    raise KeyError(name)


def find_field(tdef, name):
    for f in tdef.structure.field:
        if f.name.name.text == name:
            return f
    raise KeyError(name)


def sym_const_expr(term):
    v = SymIntStr(SymInt(term))
    return ir_data.Expression(constant=ir_data.NumericConstant(value=v), type=ir_data.ExpressionType(
        integer=ir_data.IntegerType(modulus="infinity", modular_value=v, minimum_value=v, maximum_value=v)))


def set_int_attr(tdef, name, term):
    for a in tdef.attribute:
        if a.name.text == name:
            a.value.expression = sym_const_expr(term)
            return
    tdef.attribute.extend([ir_data.Attribute(name=ir_data.Word(text=name), value=ir_data.AttributeValue(expression=sym_const_expr(term)))])


def set_bool_attr(tdef, name, value):
    for a in tdef.attribute:
        if a.name.text == name:
            a.value.expression = ir_data.Expression(boolean_constant=ir_data.BooleanConstant(value=value),
                                                    type=ir_data.ExpressionType(boolean=ir_data.BooleanType(value=value)))
            return
    raise KeyError(name)


class H:
    """One harness: body(c, ir) -> errors list (or value); oracle(holder, result) -> accepted-iff formula."""

    def __init__(self, name, body, describe):
        self.name, self.body, self.describe = name, body, describe


def run_harness(name, fn, base_ir, res):
    """fn(c, ir, holder) runs the real code and returns (rejected: bool, accept_spec: z3 Bool, replay_fn)"""
    holder = {}

    def body(c):
        ir = ir_data_utils.copy(base_ir)
        return fn(c, ir, holder)

    def on_path(pr):
        c = pr.ctx
        res["obligations"] += 1
        if pr.kind == "raise":
            m = c.witness()
            if m is None:
                res["discharged"] += 1
                return
            res["candidates"].append({"harness": name, "what": "exception %s: %s" % (type(pr.exc).__name__, pr.exc),
                                      "values": holder["describe"](m) if "describe" in holder else {},
                                      "trace": "".join(traceback.format_exception(type(pr.exc), pr.exc, pr.exc.__traceback__))[-700:]})
            return
        rejected, spec = pr.value
        r, m = c.prove(z3.Not(spec) if rejected else spec)
        if r == "unsat":
            res["discharged"] += 1
        elif r == "sat":
            res["candidates"].append({"harness": name, "what": "%s although the documented rule says %s" % (
                "rejected" if rejected else "accepted", "accept" if rejected else "reject"), "values": holder["describe"](m),
                "rejected": rejected})
        else:
            res["unknown"].append("%s: solver unknown" % name)
        res["witness"][name + (":rejected" if rejected else ":accepted")] = True

    with pysym.instrument(*INSTRUMENTED):
        st, complete = pysym.explore(body, on_path, max_paths=3000)
    res["paths"] += st.paths
    res["queries"] += st.queries
    if not complete:
        res["unknown"].append("%s: path budget" % name)


def harnesses():
    out = []

    # ---- physical type requirements of the prelude types ----
    def phys(tname, fname, spec_fn, parent="St"):
        def fn(c, ir, holder):
            st = find_type(ir, parent)
            f = find_field(st, fname)
            if fname == "fl":
                pass
            size = z3.Int("size")
            holder["describe"] = lambda m: {"type": tname, "size": m.eval(size, model_completion=True).as_long()}
            errs = constraints._check_physical_type_requirements(f.type, None, SymInt(size), ir, "base.emb")
            return bool(errs), spec_fn(size)
        return fn

    r64 = lambda s: z3.And(s >= 1, s <= 64)
    out.append(("phys:UInt", phys("UInt", "u", r64)))
    out.append(("phys:Int", phys("Int", "i", r64)))
    out.append(("phys:Bcd", phys("Bcd", "b", r64)))
    out.append(("phys:Float", phys("Float", "f", lambda s: z3.Or(s == 32, s == 64))))

    def phys_flag(c, ir, holder):
        st = find_type(ir, "St")
        anon = find_field(st, "emboss_reserved_anonymous_field_1") if False else None
        # the Flag lives in the anonymous bits type
        fl = None
        for t in ir.module[0].type:
            for sub in [t] + list(t.subtype):
                if sub.has_field("structure"):
                    for f in sub.structure.field:
                        if f.name.name.text == "fl" and not ir_util.field_is_virtual(f):
                            fl = f
        size = z3.Int("size")
        holder["describe"] = lambda m: {"type": "Flag", "size": m.eval(size, model_completion=True).as_long()}
        errs = constraints._check_physical_type_requirements(fl.type, None, SymInt(size), ir, "base.emb")
        return bool(errs), size == 1

    out.append(("phys:Flag", phys_flag))

    def phys_dynamic(tname, fname):
        def fn(c, ir, holder):
            f = find_field(find_type(ir, "St"), fname)
            holder["describe"] = lambda m: {"type": tname, "size": None}
            errs = constraints._check_physical_type_requirements(f.type, None, None, ir, "base.emb")
            return bool(errs), z3.BoolVal(False)  # dynamically sized scalars are always rejected
        return fn

    for tn, fn_ in (("UInt", "u"), ("Int", "i"), ("Bcd", "b"), ("Float", "f"), ("En", "e")):
        out.append(("phys-dynamic:" + tn, phys_dynamic(tn, fn_)))

    def phys_enum(c, ir, holder):
        en = find_type(ir, "En")
        mb = z3.Int("maximum_bits")
        c.assume(z3.And(mb >= 1, mb <= 64))
        set_int_attr(en, "maximum_bits", mb)
        f = find_field(find_type(ir, "St"), "e")
        size = z3.Int("size")
        holder["describe"] = lambda m: {"type": "enum", "size": m.eval(size, model_completion=True).as_long(),
                                        "maximum_bits": m.eval(mb, model_completion=True).as_long()}
        errs = constraints._check_physical_type_requirements(f.type, None, SymInt(size), ir, "base.emb")
        return bool(errs), z3.And(size >= 1, size <= mb)

    out.append(("phys:enum", phys_enum))

    # ---- enum values representable ----
    def enum_values(signed):
        def fn(c, ir, holder):
            en = find_type(ir, "En")
            mb = z3.Int("maximum_bits")
            c.assume(z3.And(mb >= 1, mb <= 64))
            set_int_attr(en, "maximum_bits", mb)
            set_bool_attr(en, "is_signed", signed)
            v = z3.Int("value")
            en.enumeration.value[0].value = sym_const_expr(v)
            holder["describe"] = lambda m: {"value": m.eval(v, model_completion=True).as_long(), "is_signed": signed,
                                            "maximum_bits": m.eval(mb, model_completion=True).as_long()}
            errs = []
            constraints._check_that_enum_values_are_representable(en.enumeration, en, "base.emb", errs)
            # 2**mb as a z3 term: mb is pinned by the path (the code forks on it)
            m = c.witness()
            k = m.eval(mb, model_completion=True).as_long()
            pin = mb == k
            if signed:
                spec = z3.And(v >= -(2 ** (k - 1)), v <= 2 ** (k - 1) - 1)
            else:
                spec = z3.And(v >= 0, v <= 2**k - 1)
            return bool(errs), z3.Implies(pin, spec) if True else spec
        return fn

    out.append(("enum-value:unsigned", enum_values(False)))
    out.append(("enum-value:signed", enum_values(True)))

    # ---- bits types at most 64 bits ----
    def size_of_bits(c, ir, holder):
        bi = find_type(ir, "Bi")
        k = z3.Int("fixed_size_in_bits")
        c.assume(k >= 0)
        set_int_attr(bi, "fixed_size_in_bits", k)
        holder["describe"] = lambda m: {"fixed_size_in_bits": m.eval(k, model_completion=True).as_long()}
        errs = []
        constraints._check_size_of_bits(None, bi, "base.emb", errs)
        return bool(errs), k <= 64

    out.append(("bits-size", size_of_bits))

    # ---- maximum_bits attribute range ----
    def width_attr(c, ir, holder):
        en = find_type(ir, "En")
        mb = z3.Int("maximum_bits")
        set_int_attr(en, "maximum_bits", mb)
        holder["describe"] = lambda m: {"maximum_bits": m.eval(mb, model_completion=True).as_long()}
        errs = []
        attribute_checker._verify_width_attribute_on_enum(en.enumeration, en, "base.emb", errs)
        return bool(errs), z3.And(mb >= 1, mb <= 64)

    out.append(("maximum_bits-range", width_attr))

    # ---- is_signed inference ----
    def signed_inference(c, ir, holder):
        en = find_type(ir, "En")
        # drop the explicit is_signed attribute, make two symbolic values
        keep = [a for a in en.attribute if a.name.text != "is_signed"]
        del en.attribute[:]
        en.attribute.extend(keep)
        v1, v2 = z3.Int("v1"), z3.Int("v2")
        en.enumeration.value[0].value = sym_const_expr(v1)
        second = ir_data_utils.copy(en.enumeration.value[0])
        second.value = sym_const_expr(v2)
        en.enumeration.value.extend([second])
        holder["describe"] = lambda m: {"values": [m.eval(v1, model_completion=True).as_long(), m.eval(v2, model_completion=True).as_long()]}
        attribute_checker._add_missing_width_and_sign_attributes_on_enum(en.enumeration, en)
        inferred = ir_util.get_boolean_attribute(en.attribute, "is_signed")
        # the "rejected" slot is reused: True means "inferred signed"; it must hold iff some value is negative
        return bool(inferred), z3.Not(z3.Or(v1 < 0, v2 < 0))

    out.append(("is_signed-inference", signed_inference))

    # ---- explicit size / field size consistency ----
    def field_req(kind, by_reference=False):
        def fn(c, ir, holder):
            st = find_type(ir, "St")
            s = z3.Int("field_size_bits")
            n = z3.Int("explicit_bits")
            c.assume(s >= 0)
            if kind in ("UInt:n", "UInt"):
                f = find_field(st, "u")
            elif kind == "Bi":
                f = find_field(st, "bi")
            elif kind == "anon":
                f = [x for x in st.structure.field if x.name.is_anonymous][0]
            unit = 8
            # the field's size in bytes: s must be a multiple of 8 for a struct field
            sb = z3.Int("field_size_bytes")
            c.assume(s == 8 * sb)
            if by_reference:
                # the size is written as a reference to a constant (`let k = 4` ... `0 [+k]`): not a literal, but its
                # inferred bounds are exact; the rule is stated on the field's size, however it is written
                v = SymIntStr(SymInt(sb))
                f.location.size = ir_data.Expression(
                    field_reference=ir_data.FieldReference(path=[ir_data.Reference(
                        canonical_name=ir_data.CanonicalName(module_file="base.emb", object_path=["St", "k"]),
                        source_name=[ir_data.Word(text="k")])]),
                    type=ir_data.ExpressionType(integer=ir_data.IntegerType(
                        modulus="infinity", modular_value=v, minimum_value=v, maximum_value=v)))
            else:
                f.location.size = sym_const_expr(sb)
            if kind == "UInt:n":
                f.type.size_in_bits = sym_const_expr(n)
            k = z3.Int("type_fixed_bits")
            if kind in ("Bi", "anon"):
                c.assume(z3.And(k >= 0, k <= 64))
                td = ir_util.find_object(f.type.atomic_type.reference, ir)
                set_int_attr(td, "fixed_size_in_bits", k)
            holder["describe"] = lambda m: {"kind": kind, "field_size_bits": m.eval(s, model_completion=True).as_long(),
                                            "explicit_bits": m.eval(n, model_completion=True).as_long(),
                                            "type_fixed_bits": m.eval(k, model_completion=True).as_long()}
            errs = []
            constraints._check_type_requirements_for_field(f.type, st, f, ir, "base.emb", errs)
            if kind == "UInt:n":
                spec = z3.And(n == s, n >= 1, n <= 64)
            elif kind == "UInt":
                spec = z3.And(s >= 1, s <= 64)
            elif kind == "Bi":
                spec = k == s
            else:
                spec = k <= s
            return bool(errs), spec
        return fn

    for kind in ("UInt:n", "UInt", "Bi", "anon"):
        out.append(("field-size:" + kind, field_req(kind)))
        out.append(("field-size-by-reference:" + kind, field_req(kind, True)))

    # ---- array elements in structs are whole bytes ----
    def array_elem(c, ir, holder):
        st = find_type(ir, "St")
        f = find_field(st, "arr")
        e = z3.Int("element_bits")
        c.assume(e >= 1)
        f.type.array_type.base_type.size_in_bits = sym_const_expr(e)
        holder["describe"] = lambda m: {"element_bits": m.eval(e, model_completion=True).as_long()}
        errs = []
        constraints._check_that_array_base_types_in_structs_are_multiples_of_bytes(f.type.array_type, st, "base.emb", errs, ir)
        return bool(errs), e % 8 == 0

    out.append(("array-element-bytes", array_elem))

    # ---- element type of an array field: its width must satisfy the type's own requirements ----
    def array_elem_req(c, ir, holder):
        st = find_type(ir, "St")
        f = find_field(st, "arr")
        e = z3.Int("element_bits")
        f.type.array_type.base_type.size_in_bits = sym_const_expr(e)
        holder["describe"] = lambda m: {"element_bits": m.eval(e, model_completion=True).as_long()}
        errs = []
        # the traversal of check_constraints calls the function once per Type node, with the enclosing field
        constraints._check_type_requirements_for_field(f.type, st, f, ir, "base.emb", errs)
        constraints._check_type_requirements_for_field(f.type.array_type.base_type, st, f, ir, "base.emb", errs)
        return bool(errs), z3.And(e >= 1, e <= 64)

    out.append(("array-element-width", array_elem_req))

    # ---- inner array dimensions must be compile-time constants (any constant expression) ----
    def inner_dim(shape):
        def fn(c, ir, holder):
            a, b = z3.Int("dim_a"), z3.Int("dim_b")
            holder["describe"] = lambda m: {"shape": shape, "dim_a": m.eval(a, model_completion=True).as_long(),
                                            "dim_b": m.eval(b, model_completion=True).as_long()}
            if shape == "literal":
                ec = sym_const_expr(a)
            elif shape == "sum":
                ec = ir_data.Expression(function=ir_data.Function(function=ir_data.FunctionMapping.ADDITION,
                                                                  args=[sym_const_expr(a), sym_const_expr(b)]),
                                        type=ir_data.ExpressionType(integer=ir_data.IntegerType()))
            elif shape == "field":
                ec = ir_data.Expression(field_reference=ir_data.FieldReference(path=[ir_data.Reference(
                    canonical_name=ir_data.CanonicalName(module_file="base.emb", object_path=["St", "u"]))]),
                    type=ir_data.ExpressionType(integer=ir_data.IntegerType(modulus="1", modular_value="0", minimum_value="0", maximum_value="255")))
            if shape == "automatic":
                at = ir_data.ArrayType(base_type=ir_data.Type(), automatic=ir_data.Empty())
            else:
                at = ir_data.ArrayType(base_type=ir_data.Type(), element_count=ec)
            errs = []
            constraints._check_that_inner_array_dimensions_are_constant(at, "base.emb", errs)
            return bool(errs), z3.BoolVal(shape in ("literal", "sum"))
        return fn

    for shape in ("literal", "sum", "field", "automatic"):
        out.append(("inner-dimension:" + shape, inner_dim(shape)))
    return out


def emb_for(cand):
    """Renders a candidate as a real .emb text for replay through the whole front end."""
    h, v = cand["harness"], cand["values"]
    hdr = '[$default byte_order: "LittleEndian"]\n'
    if h.startswith("phys:") and v.get("type") in ("UInt", "Int", "Bcd", "Float", "Flag"):
        s = v["size"]
        if s <= 0 or s > 4096:
            return None
        return hdr + "struct S:\n  0 [+%d]  bits:\n    0 [+%d]  %s  x\n" % ((s + 7) // 8 if s > 0 else 1, s, v["type"])
    if h == "phys:enum":
        s, mb = v["size"], v["maximum_bits"]
        if s <= 0 or s > 4096:
            return None
        return hdr + "enum E:\n  [maximum_bits: %d]\n  A = 0\nstruct S:\n  0 [+%d]  bits:\n    0 [+%d]  E  x\n" % (mb, (s + 7) // 8, s)
    if h.startswith("enum-value"):
        return hdr + "enum E:\n  [maximum_bits: %d]\n  [is_signed: %s]\n  A = %d\n" % (
            v["maximum_bits"], "true" if v["is_signed"] else "false", v["value"])
    if h == "maximum_bits-range":
        return hdr + "enum E:\n  [maximum_bits: %d]\n  A = 0\n" % v["maximum_bits"] if v["maximum_bits"] >= 0 else None
    if h in ("field-size-by-reference:UInt:n", "field-size-by-reference:UInt", "field-size:UInt:n", "field-size:UInt"):
        fs, n = v["field_size_bits"], v["explicit_bits"]
        if fs % 8 or not 0 <= fs <= 4096 or (h.endswith(":n") and not 0 < n <= 4096):
            return None
        size = "k" if "by-reference" in h else str(fs // 8)
        return hdr + "struct S:\n  let k = %d\n  0 [+%s]  UInt%s  x\n" % (fs // 8, size, (":%d" % n) if h.endswith(":n") else "")
    if h == "bits-size":
        k = v["fixed_size_in_bits"]
        if k <= 0 or k > 4096:
            return None
        return hdr + "bits B:\n  0 [+%d]  UInt:%d[%d]  x\n" % (k, 1, k) if k > 64 else hdr + "bits B:\n  0 [+%d]  UInt  x\n" % k
    return None


def replay(cand):
    """Compiles a rendered .emb with the real front end (plain text, no proxies)."""
    text = emb_for(cand)
    if text is None:
        return None, "no .emb rendering for this harness"
    from compiler.front_end import emboss_front_end
    real = emboss_front_end._find_in_dirs_and_read([common.REPO])

    def rd(name):
        if name == "cand.emb":
            return text, None
        return real(name)

    try:
        ir, _, errors = glue.parse_emboss_file("cand.emb", rd)
    except Exception as e:  # pylint: disable=broad-except
        return True, "front end crashed: %s: %s\n%s" % (type(e).__name__, e, text)
    rejected = bool(errors)
    if "rejected" in cand:
        # reproduced if the whole front end shows the same wrong decision
        return rejected == cand["rejected"], "front end %s:\n%s" % ("rejects" if rejected else "accepts", text)
    return None, "exception candidate"


# ----------------------------------------------------------------------
# "byte order present wherever it matters", with $default scoping -- through the whole front end
# ----------------------------------------------------------------------

BO_TYPES = {
    # name: (type text for a 2-byte-or-so field, width in bytes, needs a byte order in scope, attribute allowed)
    "UInt 1 byte": ("UInt", 1, False, True),
    "UInt 2 bytes": ("UInt", 2, True, True),
    "Int 4 bytes": ("Int", 4, True, True),
    "array of bytes": ("UInt:8[2]", 2, False, True),
    "array of 16-bit": ("UInt:16[2]", 4, True, True),
    "structure": ("Leaf", 2, False, False),
}


def byte_order_module(ty, module_default, before_default, main_default, field_attr):
    t, w, _, _ = BO_TYPES[ty]
    lines = []
    if module_default:
        lines.append('[$default byte_order: "LittleEndian"]')
    lines += ["struct Leaf:", "  0 [+1]  UInt  p", "  1 [+1]  UInt  q"]
    lines += ["struct Before:"]
    if before_default:
        lines.append('  [$default byte_order: "BigEndian"]')
    lines += ["  0 [+1]  UInt  z"]
    lines += ["struct Main:"]
    if main_default:
        lines.append('  [$default byte_order: "LittleEndian"]')
    lines += ["  struct Nested:", "    0 [+%d]  %s  inner" % (w, t)]
    lines += ["  0 [+%d]  %s  f" % (w, t)]
    if field_attr:
        lines.append('    [byte_order: "BigEndian"]')
    lines += ["struct After:", "  0 [+%d]  %s  g" % (w, t)]
    return "\n".join(lines) + "\n"


def run_byte_order(res):
    """Finite domain: every combination of (field type, module default, default on an unrelated earlier
    structure, default on the enclosing structure, attribute on the field).  Documented rule: a field of a
    bit-addressed type wider than one byte needs a byte order from its own attribute, or from a $default of an
    entity that encloses it (structure, module) -- never from a sibling; the attribute is not allowed on a
    field that is not byte-order dependent."""
    import itertools
    from compiler.front_end import glue, emboss_front_end
    real = emboss_front_end._find_in_dirs_and_read([common.REPO])
    combos = list(itertools.product(BO_TYPES, [0, 1], [0, 1], [0, 1], [0, 1]))
    holder = {}

    def body(c):
        k = c.choose(len(combos), "combo")
        holder["k"] = k
        text = byte_order_module(*combos[k])

        def rd(name):
            return (text, None) if name == "probe.emb" else real(name)

        ir, _, errors = glue.parse_emboss_file("probe.emb", rd)
        return errors

    def on_path(pr):
        res["paths"] += 1
        res["obligations"] += 1
        ty, md, bd, sd, fa = combos[holder["k"]]
        _, _, needs, allowed = BO_TYPES[ty]
        ok_f = (fa or sd or md or not needs) and (allowed or not fa)
        ok_inner = sd or md or not needs
        ok_after = md or not needs
        want_accept = bool(ok_f and ok_inner and ok_after)
        cand = {"harness": "byte-order", "values": {"type": ty, "module_default": md, "default_on_earlier_sibling": bd,
                                                    "default_on_enclosing_structure": sd, "field_attribute": fa},
                "text": byte_order_module(ty, md, bd, sd, fa)}
        if pr.kind == "raise":
            res["candidates"].append(dict(cand, what="front end crashed: %s: %s" % (type(pr.exc).__name__, str(pr.exc)[:100])))
            return
        errors = pr.value
        res["witness"]["byte-order:" + ("rejected" if errors else "accepted")] = True
        if bool(errors) == want_accept:
            msg = errors[0][0].message if errors else ""
            res["candidates"].append(dict(cand, what="%s although the documented rule says %s%s" % (
                "rejected" if errors else "accepted", "accept" if want_accept else "reject", (": " + msg) if msg else ""),
                rejected=bool(errors)))
        else:
            res["discharged"] += 1

    pysym.explore(body, on_path, max_paths=1000)


# ----------------------------------------------------------------------
# "attributes only where, how often and with the values allowed", "no byte-oriented members in bits":
# documented tables, through the whole front end and the C++ back end (which validates `(cpp)` attributes)
# ----------------------------------------------------------------------

_ATTR_TEXT = {
    "byte_order": lambda pl: 'byte_order: "BigEndian"',
    "requires": lambda pl: {"field": "requires: this > 0", "struct": "requires: f > 0", "bits": "requires: lo > 0"}.get(pl, "requires: true"),
    "text_output": lambda pl: 'text_output: "Skip"',
    "maximum_bits": lambda pl: "maximum_bits: 8",
    "is_signed": lambda pl: "is_signed: false",
    "namespace": lambda pl: '(cpp) namespace: "a::b"',
    "enum_case": lambda pl: '(cpp) enum_case: "kCamelCase"',
}
_PLACES = ["module", "struct", "bits", "enum", "field", "enum_value"]
_T_HDR = '[$default byte_order: "LittleEndian"]\n'


def _placement_module(attr, place, default, twice):
    a = _ATTR_TEXT[attr](place)
    if default:
        a = ("(cpp) $default " + a[6:]) if a.startswith("(cpp) ") else "$default " + a
    ins = {p: [] for p in _PLACES}
    ins[place] = ["[%s]" % a] * (2 if twice else 1)
    lines = [] if (attr == "byte_order" and place == "module") else ['[$default byte_order: "LittleEndian"]']
    lines += ins["module"]
    lines += ["struct St:"] + ["  " + x for x in ins["struct"]] + ["  0 [+2]  UInt  f"] + ["    " + x for x in ins["field"]]
    lines += ["bits Bi:"] + ["  " + x for x in ins["bits"]] + ["  0 [+4]  UInt  lo"]
    lines += ["enum En:"] + ["  " + x for x in ins["enum"]] + ["  VAL = 1"] + ["    " + x for x in ins["enum_value"]]
    return "\n".join(lines) + "\n"


def _placement_allowed(attr, place, default):
    """doc/language-reference.md, section Attributes."""
    if attr == "byte_order":
        return (place == "field" and not default) or (default and place in ("module", "struct"))
    if attr == "requires":
        return not default and place in ("field", "struct", "bits")
    if attr == "text_output":
        return not default and place == "field"
    if attr in ("maximum_bits", "is_signed"):
        return not default and place == "enum"
    if attr == "namespace":
        return not default and place == "module"
    if attr == "enum_case":
        return (not default and place == "enum_value") or (default and place in ("module", "struct", "bits", "enum"))
    raise AssertionError(attr)


def table_cases():
    """[(description, module text, accepted per the documentation)]"""
    import itertools
    cases = []
    for attr, place, default, twice in itertools.product(_ATTR_TEXT, _PLACES, (0, 1), (0, 1)):
        cases.append(("attribute %s%s on %s%s" % ("$default " if default else "", attr, place, " twice" if twice else ""),
                      _placement_module(attr, place, default, twice), bool(_placement_allowed(attr, place, default) and not twice)))

    def V(desc, text, want):
        cases.append((desc, text, bool(want)))

    H = _T_HDR
    for v, w in [('"LittleEndian"', 1), ('"BigEndian"', 1), ('"Null"', 0), ('"MiddleEndian"', 0), ("3", 0), ("true", 0)]:
        V("byte_order %s on a 2-byte field" % v, H + "struct St:\n  0 [+2]  UInt  f\n    [byte_order: %s]\n" % v, w)
    for v, w in [('"Null"', 1), ('"BigEndian"', 1)]:
        V("byte_order %s on a 1-byte field" % v, H + "struct St:\n  0 [+1]  UInt  f\n    [byte_order: %s]\n" % v, w)
    for v, w in [('"Emit"', 1), ('"Skip"', 1), ('"None"', 0), ("1", 0), ("true", 0)]:
        V("text_output %s" % v, H + "struct St:\n  0 [+1]  UInt  f\n    [text_output: %s]\n" % v, w)
    for v, w in [("8", 1), ("64", 1), ("1", 1), ("0", 0), ("65", 0), ('"8"', 0), ("true", 0)]:
        V("maximum_bits %s" % v, H + "enum En:\n  [maximum_bits: %s]\n  VAL = 1\n" % v, w)
    for v, w in [("true", 1), ("false", 1), ("1", 0), ('"true"', 0)]:
        V("is_signed %s" % v, H + "enum En:\n  [is_signed: %s]\n  VAL = 1\n" % v, w)
    for v, w in [('"SHOUTY_CASE"', 1), ('"kCamelCase"', 1), ('"SHOUTY_CASE, kCamelCase"', 1), ('"kCamelCase, SHOUTY_CASE"', 1),
                 ('"camelCase"', 0), ('""', 0), ('"SHOUTY_CASE, SHOUTY_CASE"', 0), ("3", 0)]:
        V("enum_case %s" % v, H + "enum En:\n  VAL = 1\n    [(cpp) enum_case: %s]\n" % v, w)
    for v, w in [('"a::b"', 1), ('"::a::b"', 1), ('"a"', 1), ('""', 0), ('"a::"', 0), ('"a b"', 0), ('"class"', 0), ("3", 0)]:
        V("namespace %s" % v, H + "[(cpp) namespace: %s]\nstruct St:\n  0 [+1]  UInt  f\n" % v, w)
    for v, w in [("this > 0", 1), ("true", 1), ("3", 0), ("this", 0), ("this + 1", 0), ('"x"', 0)]:
        V("requires %s on a field" % v, H + "struct St:\n  0 [+1]  UInt  f\n    [requires: %s]\n" % v, w)
    pre = H + "enum En:\n  VAL = 1\nbits Inner:\n  0 [+4]  UInt  lo\nstruct Bytes:\n  0 [+1]  UInt  b\n"
    for m, w in [("0 [+4]  UInt  m", 1), ("0 [+1]  Flag  m", 1), ("0 [+4]  Int  m", 1), ("0 [+4]  Bcd  m", 1), ("0 [+4]  En  m", 1),
                 ("0 [+4]  Inner  m", 1), ("0 [+8]  Bytes  m", 0), ("0 [+8]  UInt:4[2]  m", 1), ("0 [+16]  Bytes[2]  m", 0)]:
        V("bits member `%s`" % m, pre + "bits Bi:\n  %s\n" % m, w)
    return cases


def _compile_text(text, name="probe.emb"):
    from compiler.front_end import glue, emboss_front_end
    from compiler.back_end.cpp import header_generator
    real = emboss_front_end._find_in_dirs_and_read([common.REPO])

    def rd(n):
        return (text, None) if n == name else real(n)

    ir, _, errors = glue.parse_emboss_file(name, rd)
    if not errors:
        _, errors = header_generator.generate_header(ir)
    return errors


def run_tables(res):
    cases = table_cases()
    holder = {}

    def body(c):
        k = c.choose(len(cases), "case")
        holder["k"] = k
        return _compile_text(cases[k][1])

    def on_path(pr):
        res["paths"] += 1
        res["obligations"] += 1
        desc, text, want = cases[holder["k"]]
        cand = {"harness": "byte-order", "table": True, "values": {"case": desc}, "text": text}
        if pr.kind == "raise":
            res["candidates"].append(dict(cand, what="compiler crashed with %s: %s (documented: %s)" % (
                type(pr.exc).__name__, str(pr.exc)[:80], "accept" if want else "reject"), crash=True))
            return
        errors = pr.value
        res["witness"]["tables:" + ("rejected" if errors else "accepted")] = True
        if bool(errors) == want:
            msg = errors[0][0].message if errors else ""
            res["candidates"].append(dict(cand, what="%s although the documentation says %s%s" % (
                "rejected" if errors else "accepted", "accept" if want else "reject", (": " + msg) if msg else ""),
                rejected=bool(errors)))
        else:
            res["discharged"] += 1

    pysym.explore(body, on_path, max_paths=2000)


def replay_byte_order(cand):
    from compiler.front_end import glue, emboss_front_end
    real = emboss_front_end._find_in_dirs_and_read([common.REPO])
    text = cand["text"]

    def rd(name):
        return (text, None) if name == "cand.emb" else real(name)

    if cand.get("table"):
        try:
            errors = _compile_text(text, "cand.emb")
        except Exception as e:  # pylint: disable=broad-except
            return True, "the compiler crashed with %s: %s on\n%s" % (type(e).__name__, str(e)[:100], text)
        if cand.get("crash"):
            return False, "no crash on replay"
        return bool(errors) == cand["rejected"], "compiler %s:\n%s" % ("rejects" if errors else "accepts", text)
    try:
        ir, _, errors = glue.parse_emboss_file("cand.emb", rd)
    except Exception as e:  # pylint: disable=broad-except
        return True, "front end crashed with %s on\n%s" % (type(e).__name__, text)
    if "rejected" not in cand:
        return False, "front end %s" % ("rejects" if errors else "accepts")
    return bool(errors) == cand["rejected"], "front end %s:\n%s" % ("rejects" if errors else "accepts", text)


def main(tier):
    rep = common.Report("C14", tier, "proof")
    try:
        base_ir = load_ir()
    except RuntimeError as e:
        # the base module obeys every documented rule: its rejection is itself a violation of
        # "every module that satisfies the documented rules is accepted"
        rep.coverage.update({"obligations": 1, "discharged": 0, "checker_cmd": "python3-vt /verif/check C14",
                             "trusted_base": ["the base module in vf/checks/c14.py"]})
        rep.violation({"harness": "base-module"}, "the front end rejects a module that satisfies every documented rule: %s" % str(e)[:400],
                      {"harness": "base-module", "emb": BASE})
        return rep.finish()
    res = {"obligations": 0, "discharged": 0, "candidates": [], "unknown": [], "witness": {}, "paths": 0, "queries": 0}
    names = []
    for name, fn in harnesses():
        names.append(name)
        try:
            run_harness(name, fn, base_ir, res)
        except pysym.HarnessGap as g:
            rep.harness_error("%s: %s" % (name, g))
        except Exception as e:  # pylint: disable=broad-except
            rep.harness_error("%s: %s" % (name, "".join(traceback.format_exception(type(e), e, e.__traceback__))[-900:]))
    names.append("byte-order")
    try:
        run_byte_order(res)
        run_tables(res)
    except Exception as e:  # pylint: disable=broad-except
        rep.harness_error("byte-order: %s" % "".join(traceback.format_exception(type(e), e, e.__traceback__))[-900:])
    reserved = None
    try:
        from vf.checks import c14r
        reserved = c14r.run(rep, tier)
        for k in ("paths", "obligations", "discharged", "queries"):
            res[k] += reserved[k]
        names.append("reserved-words")
        res["witness"]["reserved-words:accepted"] = res["witness"]["reserved-words:rejected"] = True  # checked per position in c14r
    except Exception as e:  # pylint: disable=broad-except
        rep.harness_error("reserved-words: %s" % "".join(traceback.format_exception(type(e), e, e.__traceback__))[-900:])
    for u in res["unknown"]:
        rep.inconclusive_item(u)
    seen = set()
    for cand in res["candidates"]:
        sig = (cand["harness"], cand["what"])
        if sig in seen:
            continue
        seen.add(sig)
        if cand["harness"] == "byte-order":
            ok, observed = replay_byte_order(cand)
            if ok:
                rep.violation({"harness": "attribute-table" if cand.get("table") else "byte-order", "decision": cand["what"][:8]},
                              "C14 %s: %s for %s; %s" % ("attribute/member table" if cand.get("table") else "byte order",
                                                         cand["what"], cand["values"], observed), cand)
            else:
                rep.harness_error("candidate did not reproduce: %r (%s)" % (cand["values"], observed))
            continue
        ok, observed = replay(cand)
        key = {"harness": cand["harness"], "decision": cand["what"][:8]}
        if ok is None:
            # unit-level counterexample without an .emb rendering: re-run the unit on plain values
            ok2 = replay_unit(cand, base_ir)
            if ok2:
                rep.violation(key, "C14 %s: %s for %s (unit replay on plain integers)" % (cand["harness"], cand["what"], cand["values"]), cand)
            else:
                rep.harness_error("candidate did not reproduce: %r (%s)" % (cand, observed))
        elif ok:
            rep.violation(key, "C14 %s: %s for %s; %s" % (cand["harness"], cand["what"], cand["values"], observed), cand)
        else:
            ok2 = replay_unit(cand, base_ir)
            if ok2:
                rep.violation(key, "C14 %s: %s for %s (unit replay; whole-module replay masked by another check: %s)" % (
                    cand["harness"], cand["what"], cand["values"], observed[:80]), cand)
            else:
                rep.harness_error("candidate did not reproduce: %r (%s)" % (cand, observed))
    # vacuity: both decisions reachable for every rule with two outcomes
    both = [n for n in names if not n.startswith(("phys-dynamic", "inner-dimension")) and not (res["witness"].get(n + ":accepted") and res["witness"].get(n + ":rejected"))]
    if both:
        rep.harness_error("harnesses that did not reach both decisions: %s" % both)
    rep.sample({"harness": "phys:UInt", "symbolic": "size (unbounded integer)", "oracle": "accepted iff 1 <= size <= 64"})
    rep.sample({"harness": "enum-value:signed", "symbolic": "value (unbounded), maximum_bits in 1..64",
                "oracle": "accepted iff -2^(mb-1) <= value <= 2^(mb-1)-1"})
    rep.coverage.update({
        "obligations": res["obligations"], "discharged": res["discharged"],
        "checker_cmd": "python3-vt /verif/check C14 --tier %s" % tier,
        "trusted_base": ["z3", "vf/pysym.py proxies", "oracles in vf/checks/c14.py (DESIGN.md A.6)", "CPython 3.11"],
        "harnesses": names, "paths": res["paths"], "queries": res["queries"],
        "functions_encoded": ["constraints._check_physical_type_requirements (with ir_util.constant_value on prelude.emb static_requirements)",
                              "constraints._check_that_enum_values_are_representable", "constraints._check_size_of_bits",
                              "constraints._check_type_requirements_for_field", "constraints._check_that_array_base_types_in_structs_are_multiples_of_bytes",
                              "attribute_checker._verify_width_attribute_on_enum", "attribute_checker._add_missing_width_and_sign_attributes_on_enum",
                              "constraints.check_constraints with constraints._check_name_for_reserved_words / get_reserved_word_list (reserved words)"],
        "bounds": {"numbers": "unbounded integers (maximum_bits 1..64 enumerated by the code's own 2**n)",
                   "byte order": "finite domain: 6 field types x module default x default on an earlier sibling x default on the enclosing structure x field attribute, through the whole front end",
                   "tables": "finite domain, through front end and C++ back end: 7 attributes x 6 placements x plain/$default x once/twice; "
                             "allowed and disallowed values per attribute; 9 kinds of member of a bits type",
                   "reserved words": reserved or "not run",
                   "reserved words, what is symbolic": "the name: every string of 1..(longest reserved word + 1) unconstrained characters, per name "
                                                      "position (17: fields of structs/bits/anonymous bits/inline and nested types, virtual fields, "
                                                      "struct/bits/enum/external/nested types, enum values of top-level/nested/inline enums); "
                                                      "rejected iff the string is in compiler/front_end/reserved_words as read by the check's own parser "
                                                      "(united with the list printed in doc/grammar.md); precondition: the name differs from the other names of the module",
                   "outside": "reserved words as names of runtime parameters and abbreviations (the documentation names field, type and enum value names only)"},
    })
    rep.assumptions += ["numeric thresholds and attribute tables as transcribed from doc/language-reference.md in vf/checks/c14.py"]
    return rep.finish()


def replay_unit(cand, base_ir):
    """Re-runs the unit harness with the model's concrete integers (plain ints/strs)."""
    name = cand["harness"]
    vals = cand["values"]
    fn = dict(harnesses())[name]
    holder = {}

    class FakeCtx:
        def assume(self, *_):
            pass

        def witness(self):
            return None

    # concretise by substituting: run symbolically but pinned to the model's values
    res = {"obligations": 0, "discharged": 0, "candidates": [], "unknown": [], "witness": {}, "paths": 0, "queries": 0}

    def pinned(c, ir, h):
        out = fn(c, ir, h)
        return out

    def fn_pinned(c, ir, h):
        r = None
        # pin every integer the harness declares to the counterexample's value
        for k, v in vals.items():
            if isinstance(v, int) and not isinstance(v, bool):
                c.assume(z3.Int({"size": "size", "maximum_bits": "maximum_bits", "value": "value",
                                 "fixed_size_in_bits": "fixed_size_in_bits", "field_size_bits": "field_size_bits",
                                 "explicit_bits": "explicit_bits", "type_fixed_bits": "type_fixed_bits",
                                 "element_bits": "element_bits"}.get(k, k)) == v)
        return fn(c, ir, h)

    run_harness(name, fn_pinned, base_ir, res)
    return bool(res["candidates"])


def replay_file(path):
    with open(path) as f:
        obj = json.load(f)
    if obj["replay"].get("harness") == "byte-order":
        ok, observed = replay_byte_order(obj["replay"])
        print("replay %s: %s -> %s" % (path, "REPRODUCED" if ok else "did not reproduce", observed))
        if ok:
            print("VIOLATION property=C14 replay=%s" % path)
        return 1 if ok else 0
    if obj["replay"].get("harness") == "reserved-words":
        from vf.checks import c14r
        ok, observed = c14r.replay(obj["replay"])
        print("replay %s: %s -> %s" % (path, "REPRODUCED" if ok else "did not reproduce", observed))
        if ok:
            print("VIOLATION property=C14 replay=%s" % path)
        return 1 if ok else 0
    if obj["replay"].get("harness") == "base-module":
        try:
            load_ir()
            ok = False
        except RuntimeError:
            ok = True
        print("replay %s: %s" % (path, "REPRODUCED" if ok else "did not reproduce"))
        if ok:
            print("VIOLATION property=C14 replay=%s" % path)
        return 1 if ok else 0
    base_ir = load_ir()
    ok = replay_unit(obj["replay"], base_ir)
    print("replay %s: %s" % (path, "REPRODUCED" if ok else "did not reproduce"))
    if ok:
        print("VIOLATION property=C14 replay=%s" % path)
    return 1 if ok else 0
