"""C09 -- the shipped parser tables are the parser of the documented grammar.

E3: the two table sets (shipped cached_parser vs freshly generated from
module_ir.PRODUCTIONS + error_examples by the current code) are loaded as
Datalog facts; z3's fixed-point engine decides whether a `Bad` state pair is
reachable in the product of the two pushdown automata.  Underivable Bad =
bisimilar from the start configuration = identical behaviour on every token
sequence of any length."""

import json
import re
import time

import z3

from vf import common

from compiler.front_end import lr1, make_parser, module_ir
from compiler.front_end.generated import cached_parser
from compiler.util import parser_types


class Tables:
    """A parser's tables as plain data with shared numbering."""

    def __init__(self, parser, numbering):
        self.parser = parser
        self.n = numbering
        self.shift = []   # (s, x, t)
        self.goto = []    # (s, X, t)
        self.sig = []     # (s, x, k) explicit entries
        self.dflt = {}    # s -> k
        self.states = set()
        for s, row in parser.action.items():
            self.states.add(s)
            for sym, act in row.items():
                x = numbering.sym(sym)
                if isinstance(act, lr1.Shift):
                    self.shift.append((s, x, act.state))
                    self.states.add(act.state)
                    k = numbering.sig(("shift",))
                elif isinstance(act, lr1.Reduce):
                    k = numbering.sig(("reduce", act.rule.lhs, tuple(act.rule.rhs)))
                elif isinstance(act, lr1.Accept):
                    k = numbering.sig(("accept",))
                elif isinstance(act, lr1.Error):
                    k = numbering.sig(("error", repr(act.code)))
                else:
                    raise AssertionError("unknown action %r" % (act,))
                self.sig.append((s, x, k))
        for s, row in parser.goto.items():
            self.states.add(s)
            for sym, t in row.items():
                self.goto.append((s, numbering.sym(sym), t))
                self.states.add(t)
        for s in self.states:
            code = parser.default_errors.get(s)
            self.dflt[s] = numbering.sig(("error", repr(code)))


class Numbering:
    def __init__(self):
        self.syms = {}
        self.sigs = {}

    def sym(self, s):
        return self.syms.setdefault(s, len(self.syms))

    def sig(self, k):
        return self.sigs.setdefault(k, len(self.sigs))


def bisimulation(A, B, terminals, timeout_ms=600000):
    """Returns ('unsat'|'sat'|'unknown', stats).  'unsat': no Bad pair derivable."""
    nstates = max(max(A.states), max(B.states)) + 1
    sb = max(1, (nstates - 1).bit_length())
    yb = max(1, (len(A.n.syms)).bit_length())
    kb = max(1, (len(A.n.sigs)).bit_length())
    S, Y, K = z3.BitVecSort(sb), z3.BitVecSort(yb), z3.BitVecSort(kb)
    fp = z3.Fixedpoint()
    fp.set(engine="datalog")
    fp.set("timeout", timeout_ms)
    Bo = z3.BoolSort()
    rel = {}

    def R(name, *sorts):
        f = z3.Function(name, *(list(sorts) + [Bo]))
        fp.register_relation(f)
        rel[name] = f
        return f

    shA, shB = R("shiftA", S, Y, S), R("shiftB", S, Y, S)
    goA, goB = R("gotoA", S, Y, S), R("gotoB", S, Y, S)
    sgA, sgB = R("sigA", S, Y, K), R("sigB", S, Y, K)
    hasA, hasB = R("hasA", S, Y), R("hasB", S, Y)
    hgA, hgB = R("hasgotoA", S, Y), R("hasgotoB", S, Y)
    dA, dB = R("dfltA", S, K), R("dfltB", S, K)
    term = R("term", Y)
    Rel = R("R", S, S)
    Bad = R("Bad")
    sv, yv, kv = (lambda v: z3.BitVecVal(v, sb)), (lambda v: z3.BitVecVal(v, yb)), (lambda v: z3.BitVecVal(v, kb))
    nfacts = 0
    for (T, sh, go, sg, has, hg, d) in ((A, shA, goA, sgA, hasA, hgA, dA), (B, shB, goB, sgB, hasB, hgB, dB)):
        for (s, x, t) in T.shift:
            fp.fact(sh(sv(s), yv(x), sv(t)))
        for (s, x, t) in T.goto:
            fp.fact(go(sv(s), yv(x), sv(t)))
            fp.fact(hg(sv(s), yv(x)))
        for (s, x, k) in T.sig:
            fp.fact(sg(sv(s), yv(x), kv(k)))
            fp.fact(has(sv(s), yv(x)))
        for s, k in T.dflt.items():
            fp.fact(d(sv(s), kv(k)))
        nfacts += len(T.shift) + 2 * len(T.goto) + 2 * len(T.sig) + len(T.dflt)
    for t in terminals:
        fp.fact(term(yv(A.n.sym(t))))
    s1, s2, t1, t2 = z3.BitVecs("s1 s2 t1 t2", sb)
    x = z3.BitVec("x", yb)
    k1, k2 = z3.BitVecs("k1 k2", kb)
    fp.declare_var(s1, s2, t1, t2, x, k1, k2)
    fp.fact(Rel(sv(0), sv(0)))
    fp.rule(Rel(t1, t2), [Rel(s1, s2), shA(s1, x, t1), shB(s2, x, t2)])
    fp.rule(Rel(t1, t2), [Rel(s1, s2), goA(s1, x, t1), goB(s2, x, t2)])
    fp.rule(Bad(), [Rel(s1, s2), sgA(s1, x, k1), sgB(s2, x, k2), k1 != k2])
    fp.rule(Bad(), [Rel(s1, s2), sgA(s1, x, k1), z3.Not(hasB(s2, x)), dB(s2, k2), k1 != k2])
    fp.rule(Bad(), [Rel(s1, s2), sgB(s2, x, k2), z3.Not(hasA(s1, x)), dA(s1, k1), k1 != k2])
    fp.rule(Bad(), [Rel(s1, s2), term(x), z3.Not(hasA(s1, x)), z3.Not(hasB(s2, x)), dA(s1, k1), dB(s2, k2), k1 != k2])
    fp.rule(Bad(), [Rel(s1, s2), goA(s1, x, t1), z3.Not(hgB(s2, x))])
    fp.rule(Bad(), [Rel(s1, s2), goB(s2, x, t2), z3.Not(hgA(s1, x))])
    t0 = time.time()
    r = str(fp.query(Bad()))
    dt = time.time() - t0
    # size of the product actually related (a second query; informational)
    return r, {"facts": nfacts, "query_s": round(dt, 2), "state_bits": sb}


def python_product(A, B, terminals):
    """Concrete search for a differing state pair (used only to build the
    replay witness after the solver reported Bad, and to count the product's
    size for the evidence)."""
    from collections import deque

    def index(T):
        sh, go, sg = {}, {}, {}
        for (s, x, t) in T.shift:
            sh[(s, x)] = t
        for (s, x, t) in T.goto:
            go[(s, x)] = t
        for (s, x, k) in T.sig:
            sg[(s, x)] = k
        return sh, go, sg

    shA, goA, sgA = index(A)
    shB, goB, sgB = index(B)
    rowA, rowB = {}, {}
    for (s, x) in list(sgA) + list(goA):
        rowA.setdefault(s, set()).add(x)
    for (s, x) in list(sgB) + list(goB):
        rowB.setdefault(s, set()).add(x)
    tids = [A.n.sym(t) for t in terminals]
    seen = {(0, 0): None}
    q = deque([(0, 0)])
    edges = 0
    bad = None
    while q:
        s1, s2 = q.popleft()
        for x in tids:
            ka = sgA.get((s1, x), A.dflt.get(s1))
            kb = sgB.get((s2, x), B.dflt.get(s2))
            if ka != kb and bad is None:
                bad = ((s1, s2), x, ka, kb)
        for x in rowA.get(s1, set()) | rowB.get(s2, set()):
            for (ma, mb) in ((shA, shB), (goA, goB)):
                ta, tb = ma.get((s1, x)), mb.get((s2, x))
                if ta is not None and tb is not None:
                    edges += 1
                    if (ta, tb) not in seen:
                        seen[(ta, tb)] = ((s1, s2), x)
                        q.append((ta, tb))
                elif (ta is None) != (tb is None) and ma is goA and bad is None:
                    bad = ((s1, s2), x, "goto", "goto")
    path = None
    if bad is not None:
        path = [bad[1]]
        cur = bad[0]
        while seen[cur] is not None:
            prev, x = seen[cur]
            path.append(x)
            cur = prev
        path.reverse()
    return len(seen), edges, bad, path


def shortest_expansions(productions, terminals):
    """Shortest terminal string derivable from each symbol."""
    best = {t: [t] for t in terminals}
    changed = True
    while changed:
        changed = False
        for p in productions:
            if all(s in best for s in p.rhs):
                cand = [t for s in p.rhs for t in best[s]]
                if p.lhs not in best or len(cand) < len(best[p.lhs]):
                    best[p.lhs] = cand
                    changed = True
    return best


def replay_path(pa, pb, path_syms, productions):
    """Feeds the terminal expansion of a symbol path to both real parsers and
    compares their observable results."""
    terminals = {sym for prs in (pa, pb) for row in prs.action.values() for sym in row}
    best = shortest_expansions(productions, terminals)
    toks = []
    for s in path_syms:
        for t in best.get(s, [s]):
            if t != lr1.END_OF_INPUT:
                toks.append(parser_types.Token(t, "x", None))
    ra, rb = pa.parse(toks), pb.parse(toks)

    def obs(r):
        if r.error is None:
            return ("accept", tree(r.parse_tree))
        e = r.error
        return ("error", e.code, e.index, e.token.symbol, tuple(sorted(e.expected_tokens)))

    def tree(t):
        if isinstance(t, lr1.Reduction):
            return (t.symbol, tuple(tree(c) for c in t.children))
        return t.symbol

    return obs(ra) != obs(rb), [t.symbol for t in toks], repr(obs(ra))[:300], repr(obs(rb))[:300]


def grammar_md_productions(text):
    """Parses the production listings of doc/grammar.md."""
    prods = set()
    blocks = re.findall(r"```shell\n(.*?)```", text, re.S)
    for block in blocks[:2]:
        lhs = None
        cur = None
        for line in block.split("\n"):
            if not line.strip():
                continue
            m = re.match(r"^(\S+)\s+->\s*(.*)$", line)
            if m:
                if cur is not None:
                    prods.add((lhs, tuple(cur)))
                lhs = m.group(1)
                cur = m.group(2).split()
            elif line.strip().startswith("|"):
                prods.add((lhs, tuple(cur)))
                cur = line.strip()[1:].split()
            else:
                cur += line.split()
        if cur is not None:
            prods.add((lhs, tuple(cur)))
    out = set()
    for lhs, rhs in prods:
        rhs = tuple(() if rhs == ("<empty>",) else rhs)
        out.add((lhs, tuple(unquote(s) for s in rhs)))
    return out


def unquote(s):
    if s == r'"\n"':
        return '"\\n"'
    return s


def _load(name):
    if name == "module":
        return cached_parser.module_parser(), make_parser.build_module_parser()
    return cached_parser.expression_parser(), make_parser.build_expression_parser()


def _terminals(pa, pb):
    return sorted({sym for prs in (pa, pb) for row in prs.action.values() for sym in row}
                  | set(pb.terminals or ()) | {lr1.END_OF_INPUT}, key=str)


def _job(job):
    """('main'|'control-reduce'|'control-error', parser name) -> dict"""
    kind, name = job
    try:
        pa, pb = _load(name)
    except Exception as e:  # pylint: disable=broad-except
        # no freshly generated parser exists to compare the shipped one with (make_parser/lr1 raised)
        return {"kind": kind, "name": name, "verdict": "generation-failed", "error": "%s: %s" % (type(e).__name__, str(e)[:400])}
    terminals = _terminals(pa, pb)
    if kind != "main":
        import copy
        pc = lr1.Parser(pa.item_sets, copy.deepcopy(pa.goto), {s: dict(r_) for s, r_ in pa.action.items()}, pa.conflicts,
                        pa.terminals, pa.nonterminals, pa.productions, dict(pa.default_errors))
        done = False
        for s in sorted(pc.action):
            for sym, act in sorted(pc.action[s].items(), key=lambda kv: str(kv[0])):
                if kind == "control-reduce" and isinstance(act, lr1.Reduce):
                    other = [p for p in sorted(pc.productions, key=str) if p != act.rule][0]
                    pc.action[s][sym] = lr1.Reduce(other)
                    done = True
                elif kind == "control-error" and isinstance(act, lr1.Shift) and s > 3:
                    pc.action[s][sym] = lr1.Error("verif-negative-control")
                    done = True
                if done:
                    break
            if done:
                break
        num2 = Numbering()
        r2, _ = bisimulation(Tables(pc, num2), Tables(pb, num2), terminals)
        return {"kind": kind, "name": name, "verdict": r2}
    num = Numbering()
    A, B = Tables(pa, num), Tables(pb, num)
    r, st = bisimulation(A, B, terminals)
    nstates, nedges, bad, path = python_product(A, B, terminals)
    out = {"kind": kind, "name": name, "verdict": r, "stats": dict(
        st, verdict=r, states_shipped=len(A.states), states_fresh=len(B.states), product_states=nstates,
        product_edges=nedges, productions_equal=set(pa.productions) == set(pb.productions))}
    if r == "sat":
        inv = {v: k for k, v in num.syms.items()}
        reproduced, toks, oa, ob = (False, [], "", "")
        if path is not None:
            reproduced, toks, oa, ob = replay_path(pa, pb, [inv[x] for x in path], sorted(module_ir.PRODUCTIONS))
        inv_sig = {v: k for k, v in num.sigs.items()}
        desc = "state pair %s, symbol %r: shipped=%r fresh=%r" % (
            bad[0] if bad else "?", inv.get(bad[1]) if bad else "?", inv_sig.get(bad[2], bad[2]) if bad else "?",
            inv_sig.get(bad[3], bad[3]) if bad else "?")
        out.update(reproduced=reproduced, tokens=toks, shipped=oa, fresh=ob, detail=desc)
    return out


def main(tier):
    import multiprocessing

    rep = common.Report("C09", tier, "model_checking")
    jobs = [("main", "module"), ("main", "expression"), ("control-reduce", "expression"), ("control-error", "expression")]
    if tier == "thorough":
        jobs += [("control-reduce", "module"), ("control-error", "module")]
    with multiprocessing.Pool(min(len(jobs), common.ncpu())) as pool:
        results = pool.map(_job, jobs)
    info = {}
    total_states = total_edges = 0
    controls_fired = controls_total = 0
    for r in results:
        if r["verdict"] == "generation-failed":
            if r["kind"] == "main":
                # replayed here: generation is deterministic, run it once more in this process
                try:
                    _load(r["name"])
                    rep.harness_error("generating the %s parser failed in the worker only: %s" % (r["name"], r["error"]))
                except Exception as e:  # pylint: disable=broad-except
                    rep.violation({"parser": r["name"], "kind": "generation"},
                                  "no %s parser can be generated from the grammar and the error examples with the current code "
                                  "(%s), so the shipped tables are not the freshly generated ones" % (r["name"], r["error"][:300]),
                                  {"parser": r["name"], "generation_failed": True, "error": r["error"]})
            continue
        if r["kind"] != "main":
            controls_total += 1
            controls_fired += r["verdict"] == "sat"
            continue
        name = r["name"]
        info[name] = r["stats"]
        total_states += r["stats"]["product_states"]
        total_edges += r["stats"]["product_edges"]
        if r["verdict"] == "unsat":
            continue
        if r["verdict"] != "sat":
            rep.inconclusive_item("%s parser: fixed-point engine answered %s" % (name, r["verdict"]))
            continue
        if r["reproduced"]:
            rep.violation({"parser": name}, "shipped %s parser differs from the freshly generated one on tokens %s: shipped=%s fresh=%s"
                          % (name, r["tokens"], r["shipped"], r["fresh"]),
                          {"parser": name, "tokens": r["tokens"], "shipped": r["shipped"], "fresh": r["fresh"]})
        else:
            rep.violation({"parser": name, "kind": "table"},
                          "shipped %s parser tables are not bisimilar to the freshly generated ones: %s" % (name, r["detail"]),
                          {"parser": name, "detail": r["detail"], "tokens": r["tokens"], "table_only": True})
    # second sub-claim: the grammar is the published one (finite set equality; auxiliary, no quantifier)
    with open(common.REPO + "/doc/grammar.md") as f:
        doc = grammar_md_productions(f.read())
    src = set((p.lhs, tuple(p.rhs)) for p in module_ir.PRODUCTIONS)
    if doc != src:
        missing = sorted(src - doc)[:3]
        extra = sorted(doc - src)[:3]
        rep.violation({"kind": "grammar.md"}, "doc/grammar.md and module_ir.PRODUCTIONS differ: only in source %r, only in doc %r" % (missing, extra),
                      {"only_in_source": [list(map(str, m)) for m in missing], "only_in_doc": [list(map(str, m)) for m in extra], "table_only": True})
    if controls_total and controls_fired != controls_total:
        rep.harness_error("negative controls fired %d/%d" % (controls_fired, controls_total))
    rep.sample({"parser": "module", "rule": "R(t,t') <- R(s,s'), shiftA(s,x,t), shiftB(s',x,t')", "bad": "Bad <- R(s,s'), sigA(s,x,k), sigB(s',x,k'), k != k'"})
    rep.sample(info)
    rep.coverage.update({
        "states": total_states, "transitions": total_edges, "traces_validated_against_impl": 0,
        "exhaustive": True, "queries": len(jobs), "parsers": info,
        "negative_controls_fired": "%d/%d" % (controls_fired, controls_total),
        "grammar_md_productions": len(doc), "source_productions": len(src),
        "bounds": {"input_length": "unbounded (finite-state bisimulation of the two pushdown automata)",
                   "outside": "none within the claim; the tokenizer is C10"},
        "explanation": "states/transitions = reachable state pairs and edges of the product automaton",
    })
    rep.assumptions += ["lr1.Parser.parse is the driver for both table sets", "z3 Datalog engine (stratified negation)"]
    return rep.finish()


def replay_file(path):
    with open(path) as f:
        obj = json.load(f)
    r = obj["replay"]
    if r.get("generation_failed"):
        try:
            _load(r.get("parser", "module"))
        except Exception as e:  # pylint: disable=broad-except
            print("replay: generating the %s parser fails: %s: %s" % (r.get("parser"), type(e).__name__, str(e)[:200]))
            print("VIOLATION property=C09 replay=%s" % path)
            return 1
        print("replay: generation succeeds")
        return 0
    if r.get("table_only"):
        print("replay: table-level difference (%s); re-run the check to confirm" % r.get("detail", ""))
        print("VIOLATION property=C09 replay=%s" % path)
        return 1
    toks = [parser_types.Token(t, "x", None) for t in r.get("tokens", [])]
    which = r.get("parser", "module")
    pa = cached_parser.module_parser() if which == "module" else cached_parser.expression_parser()
    pb = make_parser.build_module_parser() if which == "module" else make_parser.build_expression_parser()
    ra, rb = pa.parse(toks), pb.parse(toks)
    same = (ra.error is None) == (rb.error is None) and (ra.error is None or (ra.error.code, ra.error.index) == (rb.error.code, rb.error.index))
    print("replay: shipped and fresh parsers %s on %s" % ("agree" if same else "DIFFER", r.get("tokens")))
    if not same:
        print("VIOLATION property=C09 replay=%s" % path)
    return 0 if same else 1
