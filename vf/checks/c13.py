"""C13 -- expression typing: well-typed modules are accepted, ill-typed ones
rejected.  E1: the real type_check functions are run on real ir_data nodes;
operator, arity and every operand type are finite-domain solver variables
(pysym `choose`), so the paths enumerate the whole signature space; on each
path z3 evaluates the documented signature table (DESIGN.md A.5) under the
path condition.  One step with arbitrarily typed children is the inductive
step for every nesting (the checker looks at a child only through its
annotated type and returns at once on an already-typed expression)."""

import json
import multiprocessing
import time
import traceback

import z3

from vf import common, pysym

from compiler.front_end import type_check, glue
from compiler.util import ir_data, ir_util, parser_types

FM = ir_data.FunctionMapping

KINDS = ["integer", "boolean", "enumA", "enumB", "opaque", "enumA2"]
K_INT, K_BOOL, K_EA, K_EB, K_OPQ, K_EA2 = range(6)  # enumA2: a different enum with the same short name (Outer.EnumA)

OPERATORS = [  # (FunctionMapping, text, syntactic arity or None for functions)
    (FM.ADDITION, "+", 2), (FM.SUBTRACTION, "-", 2), (FM.MULTIPLICATION, "*", 2),
    (FM.EQUALITY, "==", 2), (FM.INEQUALITY, "!=", 2), (FM.LESS, "<", 2), (FM.LESS_OR_EQUAL, "<=", 2),
    (FM.GREATER, ">", 2), (FM.GREATER_OR_EQUAL, ">=", 2), (FM.AND, "&&", 2), (FM.OR, "||", 2),
    (FM.CHOICE, "?:", 3), (FM.MAXIMUM, "$max", None), (FM.PRESENCE, "$present", None),
    (FM.UPPER_BOUND, "$upper_bound", None), (FM.LOWER_BOUND, "$lower_bound", None),
]


def loc(n):
    return parser_types.SourceLocation(parser_types.SourcePosition(n, 1), parser_types.SourcePosition(n, 5))


def enum_ref(name):
    return ir_data.Reference(canonical_name=ir_data.CanonicalName(module_file="m.emb", object_path=name.split(".")))


def typed_leaf(kind, as_field, line):
    t = ir_data.ExpressionType()
    if kind == K_INT:
        t = ir_data.ExpressionType(integer=ir_data.IntegerType())
    elif kind == K_BOOL:
        t = ir_data.ExpressionType(boolean=ir_data.BooleanType())
    elif kind == K_EA:
        t = ir_data.ExpressionType(enumeration=ir_data.EnumType(name=enum_ref("EnumA")))
    elif kind == K_EB:
        t = ir_data.ExpressionType(enumeration=ir_data.EnumType(name=enum_ref("EnumB")))
    elif kind == K_EA2:
        t = ir_data.ExpressionType(enumeration=ir_data.EnumType(name=enum_ref("Outer.EnumA")))
    else:
        t = ir_data.ExpressionType(opaque=ir_data.OpaqueType())
    if as_field:
        return ir_data.Expression(field_reference=ir_data.FieldReference(path=[ir_data.Reference(
            canonical_name=ir_data.CanonicalName(module_file="m.emb", object_path=["S", "f%d" % line]))]),
            type=t, source_location=loc(line))
    # a non-field expression of the given type: an already-typed operator node
    return ir_data.Expression(function=ir_data.Function(function=FM.ADDITION, args=[]), type=t, source_location=loc(line))


def is_enum(k):
    return z3.Or(k == K_EA, k == K_EB, k == K_EA2)


def spec_accepts(opi, n, ks, fs):
    """The documented signature table as a z3 formula over the choice variables."""
    op = OPERATORS[opi][0]
    I = lambda k: k == K_INT
    B = lambda k: k == K_BOOL
    if op in (FM.ADDITION, FM.SUBTRACTION, FM.MULTIPLICATION):
        return z3.And(I(ks[0]), I(ks[1])), K_INT
    if op in (FM.AND, FM.OR):
        return z3.And(B(ks[0]), B(ks[1])), K_BOOL
    if op in (FM.LESS, FM.LESS_OR_EQUAL, FM.GREATER, FM.GREATER_OR_EQUAL):
        return z3.And(I(ks[0]), I(ks[1])), K_BOOL
    if op in (FM.EQUALITY, FM.INEQUALITY):
        return z3.And(ks[0] == ks[1], z3.Or(I(ks[0]), B(ks[0]), is_enum(ks[0]))), K_BOOL
    if op == FM.CHOICE:
        return z3.And(B(ks[0]), ks[1] == ks[2], z3.Or(I(ks[1]), B(ks[1]), is_enum(ks[1]))), None
    if op == FM.MAXIMUM:
        return z3.And(n >= 1, *[z3.Or(n <= i, I(ks[i])) for i in range(4)]), K_INT
    if op == FM.PRESENCE:
        return z3.And(n == 1, fs[0]), K_BOOL
    if op in (FM.UPPER_BOUND, FM.LOWER_BOUND):
        return z3.And(n == 1, I(ks[0])), K_INT
    raise AssertionError(op)


def result_kind(t):
    w = t.which_type
    if w == "integer":
        return K_INT
    if w == "boolean":
        return K_BOOL
    if w == "enumeration":
        path = tuple(t.enumeration.name.canonical_name.object_path)
        return {("EnumA",): K_EA, ("EnumB",): K_EB, ("Outer", "EnumA"): K_EA2}.get(path)
    if w == "opaque":
        return K_OPQ
    return None


MAX_ARITY = 3


def run_operator(opi):
    """All arities and operand type vectors for one operator."""
    op, text, arity = OPERATORS[opi]
    out = {"op": text, "paths": 0, "obligations": 0, "discharged": 0, "candidates": [], "unknown": 0,
           "accepted": 0, "rejected": 0}
    holder = {}

    def body(c):
        n = z3.Int("n")
        if arity is None:
            c.assume(z3.And(n >= 0, n <= MAX_ARITY))
            nn = c.choose(MAX_ARITY + 1, "arity")
            c.assume(n == nn)
        else:
            nn = arity
            c.assume(n == arity)
        ks = [z3.Int("k%d" % i) for i in range(4)]
        fs = [z3.Bool("isfield%d" % i) for i in range(4)]
        args = []
        conc = []
        for i in range(nn):
            c.assume(z3.And(ks[i] >= 0, ks[i] < len(KINDS)))
            k = c.choose(len(KINDS), "kind%d" % i)
            c.assume(ks[i] == k)
            isf = c.fork(fs[i]) if op == FM.PRESENCE else True
            if op != FM.PRESENCE:
                c.assume(fs[i])
            args.append(typed_leaf(k, isf, 10 + i))
            conc.append((k, isf))
        holder.update(n=n, ks=ks, fs=fs, nn=nn, conc=conc)
        e = ir_data.Expression(function=ir_data.Function(function=op, args=args, function_name=ir_data.Word(text=text)),
                               source_location=loc(1))
        errors = []
        type_check._type_check_expression(e, "m.emb", None, errors)
        return e, errors

    def on_path(pr):
        c = pr.ctx
        out["paths"] += 1
        n, ks, fs, nn, conc = holder["n"], holder["ks"], holder["fs"], holder["nn"], holder["conc"]
        desc = {"op": text, "arity": nn, "operands": [(KINDS[k], "field" if f else "expr") for k, f in conc]}
        accepts, rkind = spec_accepts(opi, n, ks, fs)
        out["obligations"] += 1
        if pr.kind == "raise":
            # a crash on an ill-typed (or any) combination violates "never crashes the compiler"
            out["candidates"].append(dict(desc, what="exception %s: %s" % (type(pr.exc).__name__, pr.exc)))
            return
        e, errors = pr.value
        rejected = bool(errors)
        out["rejected" if rejected else "accepted"] += 1
        r, m = c.prove(z3.Not(accepts) if rejected else accepts)
        if r == "unsat":
            out["discharged"] += 1
        elif r == "sat":
            out["candidates"].append(dict(desc, what="%s although the documented signature says %s" % (
                "rejected" if rejected else "accepted", "accept" if rejected else "reject"), rejected=rejected))
            return
        else:
            out["unknown"] += 1
            return
        if not rejected:
            # result type
            out["obligations"] += 1
            got = result_kind(e.type)
            want = rkind if rkind is not None else conc[1][0]
            if got == want:
                out["discharged"] += 1
            else:
                out["candidates"].append(dict(desc, what="result type %s, documented %s" % (
                    KINDS[got] if got is not None else None, KINDS[want])))
        else:
            # the error points into the offending construct: at the expression or one of its operands
            out["obligations"] += 1
            ok_locs = {str(loc(1))} | {str(loc(10 + i)) for i in range(nn)}
            bad = [m_ for grp in errors for m_ in grp[:1] if str(m_.location) not in ok_locs]
            if not bad:
                out["discharged"] += 1
            else:
                out["candidates"].append(dict(desc, what="error reported at %s, outside the expression" % bad[0].location))

    with pysym.instrument():
        st, complete = pysym.explore(body, on_path, max_paths=200000)
    if not complete:
        out["unknown"] += 1
    return out


def run_positions():
    """Positional rules of check_types: field start/size, array length,
    existence condition, parameter definitions, passed parameters."""
    out = {"paths": 0, "obligations": 0, "discharged": 0, "candidates": [], "unknown": 0}

    def simple(name, call, want_kind_ok):
        holder = {}

        def body(c):
            k = c.choose(len(KINDS), "kind")
            holder["k"] = k
            errors = []
            call(typed_leaf(k, True, 20), errors)
            return errors

        def on_path(pr):
            out["paths"] += 1
            out["obligations"] += 1
            k = holder["k"]
            if pr.kind == "raise":
                out["candidates"].append({"position": name, "type": KINDS[k], "what": "exception %r" % pr.exc})
                return
            rejected = bool(pr.value)
            if rejected != (not want_kind_ok(k)):
                out["candidates"].append({"position": name, "type": KINDS[k], "rejected": rejected,
                                          "what": "%s although the position %s this type" % (
                                              "rejected" if rejected else "accepted", "allows" if rejected else "forbids")})
            else:
                out["discharged"] += 1

        with pysym.instrument():
            pysym.explore(body, on_path)

    integer = lambda k: k == K_INT
    boolean = lambda k: k == K_BOOL
    simple("field start", lambda e, errs: type_check._type_check_field_location(
        ir_data.FieldLocation(start=e, size=typed_leaf(K_INT, True, 21)), "m.emb", errs), integer)
    simple("field size", lambda e, errs: type_check._type_check_field_location(
        ir_data.FieldLocation(start=typed_leaf(K_INT, True, 21), size=e), "m.emb", errs), integer)
    simple("array length", lambda e, errs: type_check._type_check_array_size(e, "m.emb", errs), integer)
    simple("existence condition", lambda e, errs: type_check._type_check_field_existence_condition(
        ir_data.Field(existence_condition=e), "m.emb", errs), boolean)

    def param_def(e, errs):
        rp = ir_data.RuntimeParameter(type=e.type, physical_type_alias=ir_data.Type())
        type_check._type_check_parameter(rp, "m.emb", errs)

    simple("parameter definition", param_def, lambda k: k in (K_INT, K_EA, K_EB, K_EA2))

    # passed parameters: declared (d1[,d2]) vs passed (p1[,p2]) over {integer, enumA, enumB}; arity 0..2 each side
    PK = [K_INT, K_EA, K_EB, K_EA2]
    holder = {}

    def mk_type(k):
        return typed_leaf(k, True, 30).type

    def body(c):
        nd = c.choose(3, "ndecl")
        npass = c.choose(3, "npass")
        ds = [PK[c.choose(4, "d%d" % i)] for i in range(nd)]
        ps = [[K_INT, K_BOOL, K_EA, K_EB, K_EA2][c.choose(5, "p%d" % i)] for i in range(npass)]
        holder.update(ds=ds, ps=ps)
        tdef = ir_data.TypeDefinition(
            name=ir_data.NameDefinition(name=ir_data.Word(text="T"), canonical_name=ir_data.CanonicalName(module_file="m.emb", object_path=["T"])),
            runtime_parameter=[ir_data.RuntimeParameter(type=mk_type(k), source_location=loc(40 + i)) for i, k in enumerate(ds)],
            source_location=loc(39))
        ir = ir_data.EmbossIr(module=[ir_data.Module(type=[tdef], source_file_name="m.emb")])
        at = ir_data.AtomicType(reference=ir_data.Reference(canonical_name=ir_data.CanonicalName(module_file="m.emb", object_path=["T"])),
                                runtime_parameter=[typed_leaf(k, True, 50 + i) for i, k in enumerate(ps)], source_location=loc(49))
        errors = []
        type_check._type_check_passed_parameters(at, ir, "m.emb", errors)
        return errors

    def on_path(pr):
        out["paths"] += 1
        out["obligations"] += 1
        ds, ps = holder["ds"], holder["ps"]
        desc = {"position": "passed parameters", "declared": [KINDS[k] for k in ds], "passed": [KINDS[k] for k in ps]}
        if pr.kind == "raise":
            out["candidates"].append(dict(desc, what="exception %s: %s" % (type(pr.exc).__name__, pr.exc)))
            return
        rejected = bool(pr.value)
        want_ok = len(ds) == len(ps) and all(d == p for d, p in zip(ds, ps))
        if rejected == want_ok:
            out["candidates"].append(dict(desc, rejected=rejected, what="%s although the documented rule says %s" % (
                "rejected" if rejected else "accepted", "accept" if rejected else "reject")))
        else:
            out["discharged"] += 1

    with pysym.instrument():
        pysym.explore(body, on_path, max_paths=5000)
    return out


MODULE_HEADER = """[$default byte_order: "LittleEndian"]
enum EnumA:
  ONE = 1
enum EnumB:
  TWO = 2
struct Tee(p0: UInt:8):
  0 [+1]  UInt  z
struct TeeE(p0: EnumA):
  0 [+1]  UInt  z
"""
# expressions of each type, as a leaf and as a tree whose subexpressions have *other* types
FIELD_EXPRS = {
    "integer": ["ui", "(fl ? 2 : 1)", "(ea == EnumA.ONE ? ui : 1)"],
    "boolean": ["fl", "ui == 1", "(ui + 1) < 3"],
    "enumA": ["ea", "(fl ? ea : EnumA.ONE)", "(ui == 1 ? EnumA.ONE : ea)"],
}
CONST_EXPRS = {
    "integer": ["3", "1 + 2", "(true ? 2 : 3)", "(EnumA.ONE == EnumA.ONE ? 2 : 3)"],
    "boolean": ["true", "1 == 1"],
    "enumA": ["EnumA.ONE"],
}
REQUIRES_EXPRS = {
    "integer": ["this", "this + 1"],
    "boolean": ["this == 1", "(this + 1) < 3", "this > 0 && true"],
}
MODULE_POSITIONS = {
    # name: (template with %s, wanted type, expression table)
    "field start": ("  %s [+1]  UInt  zz\n", "integer", FIELD_EXPRS),
    "field size": ("  8 [+%s]  UInt:8[]  zz\n", "integer", FIELD_EXPRS),
    "array length": ("  8 [+2]  UInt:8[%s]  zz\n", "integer", FIELD_EXPRS),
    "existence condition": ("  if %s:\n    8 [+1]  UInt  zz\n", "boolean", FIELD_EXPRS),
    "requires": ("  8 [+1]  UInt  zz\n    [requires: %s]\n", "boolean", REQUIRES_EXPRS),
    "integer parameter": ("  8 [+1]  Tee(%s)  zz\n", "integer", FIELD_EXPRS),
    "enum parameter": ("  8 [+1]  TeeE(%s)  zz\n", "enumA", FIELD_EXPRS),
    "virtual field condition": ("  if %s:\n    let zz = 1\n", "boolean", FIELD_EXPRS),
    # inner dimensions must be constants, so these positions use the constant expression table
    "array length (constant)": ("  8 [+12]  UInt:8[%s]  zz\n", "integer", {k: v for k, v in CONST_EXPRS.items()}),
    "inner array length": ("  8 [+12]  UInt:8[%s][]  zz\n", "integer", CONST_EXPRS),
    "innermost of three array lengths": ("  8 [+12]  UInt:8[%s][2][]  zz\n", "integer", CONST_EXPRS),
    "middle of three array lengths": ("  8 [+12]  UInt:8[2][%s][]  zz\n", "integer", CONST_EXPRS),
}


def module_text(position, expr):
    if position == "enum value":
        return MODULE_HEADER + "enum Probe:\n  VALUE = %s\n" % expr
    tmpl = MODULE_POSITIONS[position][0]
    body = ("struct Main:\n  0 [+1]  UInt  ui\n  1 [+1]  bits:\n    0 [+1]  Flag  fl\n  2 [+1]  EnumA  ea\n")
    return MODULE_HEADER + body + tmpl % expr


def run_module_positions():
    """Positions as the user writes them, through the whole front end
    (check_types' traversal decides *which* nodes are checked): each typed
    position x each expression type x leaf/nested expression shapes."""
    out = {"op": "module positions", "paths": 0, "obligations": 0, "discharged": 0, "candidates": [], "unknown": 0}
    from compiler.front_end import emboss_front_end
    real = emboss_front_end._find_in_dirs_and_read([common.REPO])
    combos = []
    for pos, (tmpl, want, table) in MODULE_POSITIONS.items():
        for ty, exprs in table.items():
            for e in exprs:
                combos.append((pos, want, ty, e))
    for ty, exprs in CONST_EXPRS.items():
        for e in exprs:
            combos.append(("enum value", "integer", ty, e))
    holder = {}

    def body(c):
        k = c.choose(len(combos), "combo")
        holder["k"] = k
        pos, want, ty, e = combos[k]
        text = module_text(pos, e)

        def rd(name):
            return (text, None) if name == "probe.emb" else real(name)

        ir, _, errors = glue.parse_emboss_file("probe.emb", rd)
        return bool(errors), errors

    def on_path(pr):
        out["paths"] += 1
        out["obligations"] += 1
        pos, want, ty, e = combos[holder["k"]]
        desc = {"position": pos, "type": ty, "expression": e}
        if pr.kind == "raise":
            out["candidates"].append(dict(desc, what="front end crashed with %s: %s" % (type(pr.exc).__name__, str(pr.exc)[:100])))
            return
        rejected, errors = pr.value
        if rejected == (ty == want):
            msg = errors[0][0].message if errors else ""
            out["candidates"].append(dict(desc, rejected=rejected, what="%s although the position demands %s and the expression is %s%s" % (
                "rejected" if rejected else "accepted", want, ty, (": " + msg) if msg else "")))
        else:
            out["discharged"] += 1

    pysym.explore(body, on_path, max_paths=1000)
    return out


def malformed_errors(errors, text, name="probe.emb"):
    """'rejected with an error that points into the definition': every message names the module's file (a string),
    carries a non-synthetic position inside the text, and the error list renders with its source lines.  Returns a
    description of what is wrong, or None."""
    from compiler.util import error as error_mod
    nlines = len(text.splitlines())
    for group in errors:
        for m in group:
            if not isinstance(m.source_file, str):
                return "an error message names %s as its source file (not a file name): %r" % (type(m.source_file).__name__, m.message[:80])
            if m.source_file not in (name, ""):
                return "an error message names the unknown file %r" % m.source_file
            loc = m.location
            if m.source_file == name and (loc is None or loc.is_synthetic or not (1 <= loc.start.line <= nlines)):
                return "an error message carries no position inside the module: %r" % m.message[:80]
    try:
        error_mod.format_errors(errors, {name: text})
    except Exception as e:  # pylint: disable=broad-except
        return "format_errors raised %s: %s" % (type(e).__name__, str(e)[:80])
    return None


CONST_LEAF = {"integer": "2", "boolean": "true", "enumA": "EnumA.ONE", "enumB": "EnumB.TWO"}
PLACEMENTS = {
    # how the ill- or well-typed constant expression is reached by the type checker
    "let": "struct Def:\n  0 [+1]  UInt  z\n  let x = %s\n",
    "referenced before its definition": "struct User:\n  0 [+1]  UInt  z\n  let y = Def.x\nstruct Def:\n  0 [+1]  UInt  z\n  let x = %s\n",
    "referenced after its definition": "struct Def:\n  0 [+1]  UInt  z\n  let x = %s\nstruct User:\n  0 [+1]  UInt  z\n  let y = Def.x\n",
    # local references (a third route: _type_check_local_reference checks the referenced virtual field on demand)
    "referenced locally before its definition": "struct Def:\n  0 [+1]  UInt  z\n  let y = x\n  let x = %s\n",
    "referenced locally after its definition": "struct Def:\n  0 [+1]  UInt  z\n  let x = %s\n  let y = x\n",
    "referenced locally through two aliases": "struct Def:\n  0 [+1]  UInt  z\n  let w = y\n  let y = x\n  let x = %s\n",
}


def py_accepts(op, kinds):
    """The documented signature table on concrete operand kinds (names)."""
    n = len(kinds)
    enum = lambda k: k.startswith("enum")
    if op in ("+", "-", "*", "<", "<=", ">", ">="):
        return n == 2 and kinds[0] == kinds[1] == "integer"
    if op in ("&&", "||"):
        return n == 2 and kinds[0] == kinds[1] == "boolean"
    if op in ("==", "!="):
        return n == 2 and kinds[0] == kinds[1] and (kinds[0] in ("integer", "boolean") or enum(kinds[0]))
    if op == "?:":
        return n == 3 and kinds[0] == "boolean" and kinds[1] == kinds[2] and (kinds[1] in ("integer", "boolean") or enum(kinds[1]))
    if op == "$max":
        return n >= 1 and all(k == "integer" for k in kinds)
    if op in ("$upper_bound", "$lower_bound"):
        return n == 1 and kinds[0] == "integer"
    raise AssertionError(op)


def run_module_operators():
    """Every operator x operand-type vector over constant operands, written in a virtual field and reached by
    the type checker in three ways (directly; through a static `Type.field` reference that precedes the
    definition; through one that follows it), through the whole front end."""
    import itertools
    out = {"op": "module operators", "paths": 0, "obligations": 0, "discharged": 0, "candidates": [], "unknown": 0}
    from compiler.front_end import emboss_front_end
    real = emboss_front_end._find_in_dirs_and_read([common.REPO])
    kinds = list(CONST_LEAF)
    combos = []
    for _, op, arity in OPERATORS:
        if op == "$present":
            continue
        arities = [arity] if arity else ([1, 2] if op == "$max" else [1])
        for n in arities:
            for ks in itertools.product(kinds, repeat=n):
                for placement in PLACEMENTS:
                    combos.append((op, ks, placement))
        if op == "$max":
            # long argument lists: all integers, and one ill-typed argument at the front, in the middle, at the end
            for n in (5, 8, 9, 10, 13):
                for bad in (None, 0, n // 2, n - 1):
                    for wrong in ("boolean", "enumA"):
                        ks = tuple(wrong if i == bad else "integer" for i in range(n))
                        combos.append((op, ks, "let"))
                        if bad is None:
                            break
    holder = {}

    def text_for(op, ks, placement):
        ops = [CONST_LEAF[k] for k in ks]
        if op == "?:":
            ex = "%s ? %s : %s" % tuple(ops)
        elif op.startswith("$"):
            ex = "%s(%s)" % (op, ", ".join(ops))
        else:
            ex = "%s %s %s" % (ops[0], op, ops[1])
        return MODULE_HEADER + PLACEMENTS[placement] % ex

    def body(c):
        k = c.choose(len(combos), "combo")
        holder["k"] = k
        op, ks, placement = combos[k]
        text = text_for(op, ks, placement)

        def rd(name):
            return (text, None) if name == "probe.emb" else real(name)

        ir, _, errors = glue.parse_emboss_file("probe.emb", rd)
        return bool(errors), errors

    def on_path(pr):
        out["paths"] += 1
        out["obligations"] += 1
        op, ks, placement = combos[holder["k"]]
        desc = {"op": op, "operands": [(k, "const") for k in ks], "placement": placement,
                "module_text": text_for(op, ks, placement)}
        want_accept = py_accepts(op, list(ks))
        if pr.kind == "raise":
            out["candidates"].append(dict(desc, what="front end crashed with %s: %s (%s, %s)" % (
                type(pr.exc).__name__, str(pr.exc)[:100], placement, "well-typed" if want_accept else "ill-typed")))
            return
        rejected, errors = pr.value
        if rejected == want_accept:
            msg = errors[0][0].message if errors else ""
            out["candidates"].append(dict(desc, rejected=rejected, what="%s %s is %s when %s%s" % (
                op, list(ks), "rejected" if rejected else "accepted", placement, (": " + msg) if msg else "")))
            return
        bad = malformed_errors(errors, desc["module_text"]) if rejected else None
        if bad:
            out["candidates"].append(dict(desc, malformed=True, what="%s %s %s: %s" % (op, list(ks), placement, bad)))
        else:
            out["discharged"] += 1

    pysym.explore(body, on_path, max_paths=8000)
    return out


PARAM_TYPES = {  # declared type of the parameter: kind of a reference to it (None: not allowed as a parameter type)
    "UInt:8": "integer", "Int:16": "integer", "EnumA": "enumA", "Flag": None, "UInt:8[4]": None, "Tee": None, "EnumA[2]": None,
    # the declared type itself takes no arguments
    "UInt(true):8": None, "UInt(1):8": None, "EnumA(1)": None,
}
PARAM_USES = {  # how the structure uses its parameter: the kind the use demands (None: any)
    "unused": ("", None),
    "aliased by a virtual field": ("  let q = p\n", None),
    "as a field size": ("  1 [+p]  UInt:8[]  arr\n", "integer"),
    "in an integer expression": ("  let q = p + 1\n", "integer"),
    "compared with an enum value": ("  if p == EnumA.ONE:\n    1 [+1]  UInt  c\n", "enumA"),
    "as an array length": ("  1 [+4]  UInt:8[p]  arr\n", "integer"),
    "passed on": ("  1 [+1]  Tee(p)  t\n", "integer"),
}


def run_parameter_definitions():
    """Parameter definitions: declared type x use of the parameter inside the structure, through the whole front
    end.  Accepted iff the declared type is an integer or an enum and the use is well-typed for it; otherwise
    rejected with well-formed errors, never a crash."""
    out = {"op": "parameter definitions", "paths": 0, "obligations": 0, "discharged": 0, "candidates": [], "unknown": 0}
    from compiler.front_end import emboss_front_end
    real = emboss_front_end._find_in_dirs_and_read([common.REPO])
    combos = [(t, u) for t in PARAM_TYPES for u in PARAM_USES]
    holder = {}

    def text_for(t, u):
        return MODULE_HEADER + "struct Par(p: %s):\n  0 [+1]  UInt  z\n%s" % (t, PARAM_USES[u][0])

    def body(c):
        k = c.choose(len(combos), "combo")
        holder["k"] = k
        text = text_for(*combos[k])

        def rd(name):
            return (text, None) if name == "probe.emb" else real(name)

        ir, _, errors = glue.parse_emboss_file("probe.emb", rd)
        return bool(errors), errors

    def on_path(pr):
        out["paths"] += 1
        out["obligations"] += 1
        t, u = combos[holder["k"]]
        kind, need = PARAM_TYPES[t], PARAM_USES[u][1]
        want_accept = kind is not None and (need is None or need == kind)
        desc = {"position": "parameter definition", "declared": t, "use": u, "module_text": text_for(t, u)}
        if pr.kind == "raise":
            out["candidates"].append(dict(desc, what="front end crashed with %s: %s (parameter of type %s, %s)" % (
                type(pr.exc).__name__, str(pr.exc)[:100], t, u)))
            return
        rejected, errors = pr.value
        if rejected == want_accept:
            msg = errors[0][0].message if errors else ""
            out["candidates"].append(dict(desc, rejected=rejected, what="a parameter of type %s, %s, is %s%s" % (
                t, u, "rejected" if rejected else "accepted", (": " + msg) if msg else "")))
            return
        bad = malformed_errors(errors, desc["module_text"]) if rejected else None
        if bad:
            out["candidates"].append(dict(desc, malformed=True, what="a parameter of type %s, %s: %s" % (t, u, bad)))
        else:
            out["discharged"] += 1

    pysym.explore(body, on_path, max_paths=1000)
    return out

FAILING_SUBEXPRESSIONS = ["(st == 1)", "(st < 1)", "(fl ? st : st)", "(1 + true)", "$max(st)", "(fl ? 1 : true)", "(ea == 1)", "(st == st)"]
NESTED_CONTEXTS = {
    # an ill-typed subexpression as an operand of every operator and in every typed position: the enclosing
    # construct must still be checked without a crash, and the module rejected with well-formed errors
    "left of +": "  let v = %s + 1\n", "right of -": "  let v = 1 - %s\n", "left of *": "  let v = %s * 2\n",
    "left of ==": "  let v = %s == 1\n", "right of !=": "  let v = 1 != %s\n", "left of <": "  let v = %s < 1\n",
    "right of >=": "  let v = 1 >= %s\n", "left of &&": "  let v = %s && true\n", "right of ||": "  let v = true || %s\n",
    "condition of ?:": "  let v = %s ? 1 : 2\n", "if-true of ?:": "  let v = fl ? %s : 2\n", "if-false of ?:": "  let v = fl ? 2 : %s\n",
    "argument of $max": "  let v = $max(1, %s)\n", "argument of $upper_bound": "  let v = $upper_bound(%s)\n",
    "argument of $lower_bound": "  let v = $lower_bound(%s)\n",
    "existence condition": "  if %s:\n    8 [+1]  UInt  zz\n", "field start": "  %s [+1]  UInt  zz\n",
    "field size": "  8 [+%s]  UInt:8[]  zz\n", "array length": "  8 [+2]  UInt:8[%s]  zz\n",
    "passed parameter": "  8 [+1]  Tee(%s)  zz\n", "requires": "  8 [+1]  UInt  zz\n    [requires: %s]\n",
    "condition of a virtual field": "  if %s:\n    let zz = 1\n",
}
NESTED_BODY = "struct Sub:\n  0 [+1]  UInt  q\nstruct Main:\n  0 [+1]  UInt  ui\n  1 [+1]  bits:\n    0 [+1]  Flag  fl\n  2 [+1]  EnumA  ea\n  3 [+1]  Sub  st\n"


def run_nested_failures():
    out = {"op": "nested ill-typed operands", "paths": 0, "obligations": 0, "discharged": 0, "candidates": [], "unknown": 0}
    from compiler.front_end import emboss_front_end
    real = emboss_front_end._find_in_dirs_and_read([common.REPO])
    combos = [(cx, f) for cx in NESTED_CONTEXTS for f in FAILING_SUBEXPRESSIONS]
    holder = {}

    def text_for(cx, f):
        return MODULE_HEADER + NESTED_BODY + NESTED_CONTEXTS[cx] % f

    def body(c):
        k = c.choose(len(combos), "combo")
        holder["k"] = k
        text = text_for(*combos[k])

        def rd(name):
            return (text, None) if name == "probe.emb" else real(name)

        ir, _, errors = glue.parse_emboss_file("probe.emb", rd)
        return bool(errors), errors

    def on_path(pr):
        out["paths"] += 1
        out["obligations"] += 1
        cx, f = combos[holder["k"]]
        desc = {"position": "nested: " + cx, "expression": f, "type": "ill-typed", "module_text": text_for(cx, f)}
        if pr.kind == "raise":
            out["candidates"].append(dict(desc, what="front end crashed with %s: %s (ill-typed %s as %s)" % (
                type(pr.exc).__name__, str(pr.exc)[:100], f, cx)))
            return
        rejected, errors = pr.value
        if not rejected:
            out["candidates"].append(dict(desc, rejected=False, what="accepted although %s is ill-typed (as %s)" % (f, cx)))
            return
        bad = malformed_errors(errors, desc["module_text"])
        if bad:
            out["candidates"].append(dict(desc, malformed=True, what="ill-typed %s as %s: %s" % (f, cx, bad)))
        else:
            out["discharged"] += 1

    pysym.explore(body, on_path, max_paths=2000)
    return out


def _job(j):
    try:
        if j == "positions":
            return run_positions()
        if j == "module positions":
            return run_module_positions()
        if j == "module operators":
            return run_module_operators()
        if j == "parameter definitions":
            return run_parameter_definitions()
        if j == "nested failures":
            return run_nested_failures()
        return run_operator(j)
    except Exception as e:  # pylint: disable=broad-except
        return {"error": "".join(traceback.format_exception(type(e), e, e.__traceback__))[-1200:], "op": str(j)}


# ---- replay through the whole front end --------------------------------

LEAF_TEXT = {"integer": "ui", "boolean": "fl", "enumA": "ea", "enumB": "eb", "opaque": "st", "enumA2": "ea2"}
EXPR_TEXT = {"integer": "(ui+1)", "boolean": "(fl&&true)", "enumA": "(fl ? ea : ea)", "enumB": "(fl ? eb : eb)", "opaque": "st",
             "enumA2": "(fl ? ea2 : ea2)"}

HEADER = """[$default byte_order: "LittleEndian"]
enum EnumA:
  ONE = 1
enum EnumB:
  TWO = 2
struct Sub:
  0 [+1]  UInt  q
struct Outer:
  enum EnumA:
    UNO = 1
  0 [+1]  UInt  inner
"""


def emb_for(c):
    if c.get("module_text"):
        return c["module_text"]
    body = ("struct Main:\n  0 [+1]  UInt  ui\n  1 [+1]  bits:\n    0 [+1]  Flag  fl\n  2 [+1]  EnumA  ea\n"
            "  3 [+1]  EnumB  eb\n  4 [+1]  Sub  st\n  5 [+1]  Outer.EnumA  ea2\n")
    if "op" in c:
        ops = [(LEAF_TEXT if kind == "field" else EXPR_TEXT)[t] for t, kind in c["operands"]]
        op = c["op"]
        if op == "?:":
            ex = "%s ? %s : %s" % tuple(ops)
        elif op.startswith("$"):
            ex = "%s(%s)" % (op, ", ".join(ops))
        else:
            ex = "%s %s %s" % (ops[0], op, ops[1])
        return HEADER + body + "  let v = %s\n" % ex
    if c.get("position") == "passed parameters":
        names = {"integer": "UInt:8", "enumA": "EnumA", "enumB": "EnumB", "enumA2": "Outer.EnumA"}
        vals = {"integer": "5", "boolean": "true", "enumA": "EnumA.ONE", "enumB": "EnumB.TWO", "enumA2": "Outer.EnumA.UNO"}
        decl = ", ".join("p%d: %s" % (i, names[d]) for i, d in enumerate(c["declared"]))
        t = "struct Tee%s:\n  0 [+1]  UInt  z\n" % ("(%s)" % decl if decl else "")
        passed = ", ".join(vals[p] for p in c["passed"])
        return HEADER + t + "struct Main:\n  0 [+1]  Tee%s  t\n" % ("(%s)" % passed if passed else "")
    pos = c.get("position")
    if "expression" in c:
        return module_text(pos, c["expression"])
    leaf = LEAF_TEXT.get(c.get("type"), "ui")
    if pos == "field start":
        return HEADER + body + "  %s [+1]  UInt  z\n" % leaf
    if pos == "field size":
        return HEADER + body + "  8 [+%s]  UInt:8[]  z\n" % leaf
    if pos == "array length":
        return HEADER + body + "  8 [+4]  UInt:8[%s]  z\n" % leaf
    if pos == "existence condition":
        return HEADER + body + "  if %s:\n    8 [+1]  UInt  z\n" % leaf
    return None


def replay(c):
    text = emb_for(c)
    if text is None:
        return None, "no .emb rendering"
    from compiler.front_end import emboss_front_end
    real = emboss_front_end._find_in_dirs_and_read([common.REPO])

    def rd(name):
        return (text, None) if name == "cand.emb" else real(name)

    try:
        ir, _, errors = glue.parse_emboss_file("cand.emb", rd)
    except Exception as e:  # pylint: disable=broad-except
        return True, "front end crashed with %s: %s on\n%s" % (type(e).__name__, e, text)
    rejected = bool(errors)
    if c.get("malformed"):
        bad = malformed_errors(errors, text, "cand.emb") if rejected else None
        return bool(bad), "%s on\n%s" % (bad or "errors are well-formed on replay", text)
    if "rejected" not in c:
        return False, "front end %s" % ("rejects" if rejected else "accepts")
    return rejected == c["rejected"], "front end %s:\n%s" % ("rejects" if rejected else "accepts", text)


def classify(c):
    key = {"what": "accepted" if c.get("rejected") is False else "rejected" if c.get("rejected") else "other"}
    if "op" in c:
        key["op"] = c["op"]
        ts = [t for t, _ in c["operands"]]
        key["same_enum_operands"] = len(ts) == 2 and ts[0] == ts[1] and ts[0].startswith("enum")
    else:
        key["position"] = c.get("position")
        if "expression" in c:
            key["type"] = c.get("type")
        if "declared" in c:
            key["declared"] = c["declared"]
    if c.get("malformed"):
        key = {"what": "malformed errors", "placement": c.get("placement") or c.get("use") or c.get("position")}
    return key


def main(tier):
    global MAX_ARITY
    rep = common.Report("C13", tier, "proof")
    MAX_ARITY = 3 if tier == "quick" else 4
    jobs = list(range(len(OPERATORS))) + ["positions", "module positions", "module operators", "parameter definitions", "nested failures"]
    with multiprocessing.Pool(min(len(jobs), common.ncpu())) as pool:
        results = pool.map(_job, jobs)
    tot = {"paths": 0, "obligations": 0, "discharged": 0}
    cands = []
    per_op = {}
    for r in results:
        if "error" in r:
            rep.harness_error("%s: %s" % (r["op"], r["error"]))
            continue
        for k in tot:
            tot[k] += r[k]
        if r.get("unknown"):
            rep.inconclusive_item("%s: %d unknown/unfinished" % (r.get("op", "positions"), r["unknown"]))
        per_op[r.get("op", "positions")] = {"paths": r["paths"], "accepted": r.get("accepted"), "rejected": r.get("rejected")}
        cands += r["candidates"]
    seen = {}
    for c in cands:
        key = classify(c)
        sig = json.dumps(key, sort_keys=True)
        seen[sig] = seen.get(sig, 0) + 1
        if seen[sig] > 1:
            continue
        ok, observed = replay(c)
        if ok:
            rep.violation(key, "C13 %s: %s; %s" % ({k: v for k, v in c.items() if k not in ("what",)}, c["what"], observed), c)
        elif ok is None:
            rep.violation(key, "C13 %s: %s (unit level; %s)" % ({k: v for k, v in c.items() if k != "what"}, c["what"], observed), c)
        else:
            # the unit accepts/rejects differently from the table, but the whole front end does not show it
            # (another pass catches it): reported as unit-level only if the unit is the only guard
            rep.inconclusive_item("unit-level difference not visible through the whole front end: %s (%s)" % (c, observed[:60]))
    for name, v in per_op.items():
        if name not in ("positions", "module positions", "module operators", "parameter definitions", "nested ill-typed operands") and (not v["accepted"] or not v["rejected"]):
            rep.harness_error("operator %s: accepted=%s rejected=%s (vacuous)" % (name, v["accepted"], v["rejected"]))
    rep.sample({"operator": "==", "arity": 2, "operand kinds": "each in {integer, boolean, enumA, enumB, opaque}",
                "oracle": "accepted iff both integer, both boolean, or both the same enum; result boolean"})
    rep.sample(per_op)
    # obligations that fail at a recorded known finding are not part of what this run claims to have proved:
    # they are counted separately (each is re-reported as KNOWN-FINDING above), never as discharged
    known_failing = sum(1 for c in cands if rep.match_known(classify(c)) is not None)
    rep.coverage.update({
        "obligations": tot["obligations"] - known_failing, "discharged": tot["discharged"],
        "obligations_failing_at_known_findings": known_failing,
        "checker_cmd": "python3-vt /verif/check C13 --tier %s" % tier,
        "trusted_base": ["z3", "vf/pysym.py", "signature table in vf/checks/c13.py (DESIGN.md A.5, from doc/language-reference.md)"],
        "paths": tot["paths"], "per_operator": per_op,
        "functions_encoded": ["type_check._type_check_expression", "type_check._type_check_operation",
                              "type_check._type_check_monomorphic_operator", "type_check._type_check_comparison_operator",
                              "type_check._type_check_choice_operator", "type_check._type_check_field_location",
                              "type_check._type_check_array_size", "type_check._type_check_field_existence_condition",
                              "type_check._type_check_parameter", "type_check._type_check_passed_parameters",
                              "type_check._type_check_local_reference", "type_check._annotate_parameter_type (through the whole front end)"],
        "bounds": {"operators": "all 16", "operand types": "integer, boolean, two enums, opaque", "function arity": "0..%d" % MAX_ARITY,
                   "declared/passed parameters": "0..2",
                   "parameter definitions": "%d declared types x %d uses inside the structure" % (len(PARAM_TYPES), len(PARAM_USES)),
                   "placements of an operator over constants": list(PLACEMENTS),
                   "nested ill-typed operands": "%d failing subexpressions x %d enclosing operators/positions" % (len(FAILING_SUBEXPRESSIONS), len(NESTED_CONTEXTS)),
                   "rejections": "every message names the module's file, carries a position inside it, and error.format_errors renders the list",
                   "outside": "nesting is covered by the inductive argument, not executed; [requires] and enum-value typing (attribute_checker)"},
        "note": "finite domain: the paths enumerate every (operator, arity, type vector); the solver evaluates the table under each path condition",
    })
    return rep.finish()


def replay_file(path):
    with open(path) as f:
        obj = json.load(f)
    ok, observed = replay(obj["replay"])
    print("replay %s: %s -> %s" % (path, "REPRODUCED" if ok else "did not reproduce", observed))
    if ok:
        print("VIOLATION property=C13 replay=%s" % path)
    return 1 if ok else 0
