"""C20 -- CopyFrom and Equals implement logical copy and logical equality.
E2 with two views in one symbolic memory (placements unconstrained, so
overlapping buffers are included), against the reference of vf/embz3.py."""

import json
import multiprocessing
import os
import shutil
import subprocess
import time
import traceback

import z3

from vf import common, cxx, ll2smt, front, structs, embz3, struct_check
from vf.llparse import NotEncoded
from vf.checks import c01

BV = z3.BitVecVal


def check_module(job):
    emb, import_dirs, opts = job
    res = struct_check.ModResult(emb)
    z3.set_param("smt.random_seed", 0)
    d = common.scratch_dir("verif-s20-")
    try:
        try:
            ir = front.compile_module(emb, import_dirs, d)
        except front.FrontEndError as e:
            if "Unable to read file" in str(e):
                res.skipped.append((emb, "imports a file that is not in the tree"))
            else:
                res.errors.append("front end rejected corpus module %s: %s" % (emb, str(e)[:500]))
            return res
        src_text, entries = structs.gen_driver2(ir, emb + ".h")
        src = os.path.join(d, "drv2.cc")
        with open(src, "w") as f:
            f.write(src_text)
        try:
            text = cxx.compile_ir(src, os.path.join(d, "drv2.ll"), cxx.O2_FLAGS, includes=[d])
        except cxx.CompileError as e:
            # some view does not instantiate (a C++ error in the generated header is C07's subject):
            # keep the entry points that compile on their own
            head = [l for l in src_text.split("\n") if not l.startswith("extern")]
            good = []
            for l in [l for l in src_text.split("\n") if l.startswith("extern")]:
                with open(src, "w") as f:
                    f.write("\n".join(head + [l]) + "\n")
                try:
                    cxx.compile_ir(src, os.path.join(d, "probe.ll"), cxx.O2_FLAGS, includes=[d])
                    good.append(l)
                except cxx.CompileError:
                    fn = l.split("(")[0].split()[-1]
                    res.skipped.append((fn, "does not instantiate (C++ compile error in the generated header)"))
            with open(src, "w") as f:
                f.write("\n".join(head + good) + "\n")
            good_fns = {l.split("(")[0].split()[-1] for l in good}
            entries = [x for x in entries if x.fn in good_fns]
            try:
                text = cxx.compile_ir(src, os.path.join(d, "drv2.ll"), cxx.O2_FLAGS, includes=[d])
            except cxx.CompileError as e2:
                res.errors.append(str(e2)[-1500:])
                return res
        mod = ll2smt.parse(text)
        ex = ll2smt.Executor(mod, unroll=opts.get("unroll", 17), check_flags=False)
        ex.MAX_MEMOP = opts.get("nmax", 24) + 2
        names = {e.struct for e in entries}
        have = {e.fn for e in entries}
        for tdef in structs.all_structs(ir.module[0]):
            sname = ".".join(tdef.name.canonical_name.object_path)
            if sname not in names:
                continue
            res.structures += 1
            sid = structs.ident(sname)
            mem0 = cxx.fresh_memory()
            try:
                ha = struct_check.Harness(ex, ir, tdef, nmax_cap=opts.get("nmax", 24), bufname="a", mem=mem0, writable=True)
                hb = struct_check.Harness(ex, ir, tdef, nmax_cap=opts.get("nmax", 24), bufname="b", mem=mem0)
            except Exception as e:  # pylint: disable=broad-except
                res.skipped.append((sname, "harness: %s" % e))
                continue
            mem = ha.mem
            hb.mem = mem
            hb.new_ref(mem)
            ha.new_ref(mem)
            # same parameter values for both views
            args = [ha.buf.B, ha.buf.n, hb.buf.B, hb.buf.n] + [p[1] for p in ha.params]
            hb.inst.params = ha.inst.params
            pre = list(ha.buf.pre) + list(hb.buf.pre) + [p[2] for p in ha.params]
            regions = [ha.buf.region, hb.buf.region]

            def cex(m, what, extra=None):
                c = {"module": emb, "import_dirs": import_dirs, "struct": sname, "what": what,
                     "a": ha.model_inputs(m), "b": hb.model_inputs(m),
                     "a_base": m.eval(ha.buf.B, model_completion=True).as_long(),
                     "b_base": m.eval(hb.buf.B, model_completion=True).as_long()}
                c.update(extra or {})
                return c

            # ---- Equals ----
            try:
                oka, okb = ha.ctx.struct_ok(ha.inst), hb.ctx.struct_ok(hb.inst)
                eq = embz3.equals_ref(ha.ctx, ha.inst, hb.ctx, hb.inst)
                assum = list(ha.ctx.assumptions) + list(hb.ctx.assumptions)
                if sid + "__equals" not in have:
                    raise embz3.Unsupported("Equals does not instantiate")
                r = ex.run(sid + "__equals", args, mem, regions)
                res.instrs += r.instrs
                p2 = pre + assum
                if not z3.is_false(z3.simplify(r.unwind_exceeded)):
                    st, _ = struct_check._check(res, p2, r.unwind_exceeded)
                    if st != "unsat":
                        raise NotEncoded("loop bound exceeded")
                spec = z3.If(z3.And(oka, okb), z3.If(eq, BV(1, 32), BV(0, 32)), BV(2, 32))
                st, m = struct_check._check(res, p2, r.ret != spec)
                res.compared += 1
                res.entries += 1
                if st == "unsat":
                    res.unsat += 1
                elif st == "sat":
                    res.candidates.append(cex(m, "%s Equals" % sname, {"fn": sid + "__equals", "kind": "equals",
                                                                       "impl": str(m.eval(r.ret)), "ref": str(m.eval(spec))}))
                else:
                    res.unknown.append("%s Equals: solver %s" % (sname, st))
                # witnesses: both outcomes reachable
                for want in (1, 0):
                    st, _ = struct_check._check(res, p2, spec == BV(want, 32))
                    if st == "sat":
                        res.witnesses += 1
            except embz3.Unsupported as u:
                res.skipped.append((sname + " Equals", str(u)))
            except NotEncoded as ne:
                res.not_encoded.append("%s Equals: %s" % (sname, ne))
            # ---- TryToCopyFrom(dst=a <- src=b) ----
            try:
                okb = hb.ctx.struct_ok(hb.inst)
                szb = hb.ctx.size(hb.inst)
                assum = list(hb.ctx.assumptions)
                if sid + "__copy" not in have:
                    raise embz3.Unsupported("TryToCopyFrom does not instantiate")
                r = ex.run(sid + "__copy", args, mem, regions)
                res.instrs += r.instrs
                p2 = pre + assum
                obl_bound = [o for o in r.obligations if o.kind == "memop-bound"]
                for o in obl_bound:
                    st, _ = struct_check._check(res, p2, o.violated)
                    if st != "unsat":
                        raise NotEncoded("copy longer than the modelled bound")
                succeed = z3.And(okb, z3.ZeroExt(64, ha.buf.n) >= szb.v)
                res.entries += 1
                mem2 = r.mem
                j = z3.BitVec("j", 64)
                size64 = z3.Extract(63, 0, szb.v)
                indst = z3.And(z3.UGE(j, ha.buf.B), z3.ULT(j - ha.buf.B, size64))
                obligations = [
                    ("TryToCopyFrom succeeds iff source Ok and destination large enough", r.ret == succeed),
                    ("copied bytes equal the source's pre-state bytes (memmove semantics)",
                     z3.Implies(z3.And(succeed, indst), z3.Select(mem2, j) == z3.Select(mem, hb.buf.B + (j - ha.buf.B)))),
                    ("bytes outside the copied extent are untouched",
                     z3.Implies(z3.And(succeed, z3.Not(indst)), z3.Select(mem2, j) == z3.Select(mem, j))),
                    ("failed copy leaves memory unchanged", z3.Implies(z3.Not(succeed), z3.Select(mem2, j) == z3.Select(mem, j))),
                ]
                for what, f in obligations:
                    st, m = struct_check._check(res, p2, z3.Not(f))
                    res.compared += 1
                    if st == "unsat":
                        res.unsat += 1
                    elif st == "sat":
                        res.candidates.append(cex(m, "%s %s" % (sname, what), {"fn": sid + "__copy", "kind": "copy"}))
                    else:
                        res.unknown.append("%s %s: solver %s" % (sname, what, st))
                # after a successful copy between disjoint buffers the destination is Ok and Equals the
                # source.  The post-memory is any memory that satisfies the copy obligations proved above
                # (instantiated per byte), which keeps store chains out of the query.
                disjoint = z3.Or(z3.UGE(hb.buf.B, ha.buf.B + ha.buf.n), z3.UGE(ha.buf.B, hb.buf.B + hb.buf.n))
                memP = z3.Array("mem_post", ll2smt.BV64, ll2smt.BV8)
                post_pre = []
                for i in range(ha.nmax):
                    post_pre.append(z3.Implies(z3.ULT(BV(i, 64), size64),
                                               z3.Select(memP, ha.buf.B + i) == z3.Select(mem, hb.buf.B + i)))
                for i in range(hb.nmax):
                    post_pre.append(z3.Select(memP, hb.buf.B + i) == z3.Select(mem, hb.buf.B + i))
                ca2, ia2 = ha.new_ref(memP)
                cb2, ib2 = hb.new_ref(memP)
                ib2.params = ia2.params
                post = z3.And(ca2.struct_ok(ia2), embz3.equals_ref(ca2, ia2, cb2, ib2))
                st, m = struct_check._check(res, p2 + list(ca2.assumptions) + list(cb2.assumptions) + post_pre, succeed, disjoint, z3.Not(post))
                res.compared += 1
                if st == "unsat":
                    res.unsat += 1
                elif st == "sat":
                    res.candidates.append(cex(m, "%s after a successful copy the destination is Ok and Equals the source" % sname,
                                              {"fn": sid + "__copy", "kind": "copy_post"}))
                else:
                    res.unknown.append("%s copy post-state: solver %s" % (sname, st))
                st, _ = struct_check._check(res, p2, succeed)
                if st == "sat":
                    res.witnesses += 1
                ha.new_ref(mem)
                hb.new_ref(mem)
            except embz3.Unsupported as u:
                res.skipped.append((sname + " TryToCopyFrom", str(u)))
            except NotEncoded as ne:
                res.not_encoded.append("%s TryToCopyFrom: %s" % (sname, ne))
            if len(res.samples) < 2:
                res.samples.append({"module": emb, "structure": sname, "buffers": "two views in one memory, bases unconstrained (overlap allowed), lengths 0..%d" % ha.nmax})
    except Exception as x:  # pylint: disable=broad-except
        res.errors.append("%s: %s" % (emb, "".join(traceback.format_exception(type(x), x, x.__traceback__))[-1500:]))
    finally:
        shutil.rmtree(d, ignore_errors=True)
    return res


REPLAY_MAIN = r"""
#include <cstdio>
#include <cstdlib>
#include <cstring>
int main() {
  long off_a, off_b; unsigned long n1, n2, total;
  if (scanf("%ld %ld %lu %lu %lu", &off_a, &off_b, &n1, &n2, &total) != 5) return 2;
  unsigned char* arena = static_cast<unsigned char*>(malloc(total ? total : 1));
  for (unsigned long i = 0; i < total; ++i) { unsigned b; if (scanf("%x", &b) != 1) return 2; arena[i] = (unsigned char)b; }
  long long a[8]; int na = 0; while (na < 8 && scanf("%lld", &a[na]) == 1) ++na;
  unsigned char* p1 = arena + off_a; unsigned char* p2 = arena + off_b;
  long long r = (long long)CALL;
  printf("result %lld\nafter", r);
  for (unsigned long i = 0; i < total; ++i) printf(" %02x", arena[i]);
  printf("\n");
  free(arena);
  return 0;
}
"""


def replay(c):
    """Native run (ASan+UBSan) with both views placed in one arena at the
    model's relative distance; compared with a Python re-evaluation of the
    obligations on concrete bytes where that is cheap (return value and
    memmove post-state)."""
    d = common.scratch_dir("verif-r20-")
    try:
        ir = front.compile_module(c["module"], c["import_dirs"], d)
        src_text, entries = structs.gen_driver2(ir, c["module"] + ".h")
        # only the entry point under replay: other entries of the module may not compile (Equals of
        # parameterised structures), and the symbolic run dropped those as well
        src_text = "\n".join(l for l in src_text.splitlines()
                             if not l.startswith('extern "C"') or (" %s(" % c["fn"]) in l) + "\n"
        with open(os.path.join(d, "drv2.cc"), "w") as f:
            f.write(src_text)
        a, b = c["a"], c["b"]
        dist = c["b_base"] - c["a_base"]
        overlapping = abs(dist) < max(a["n"], b["n"]) + 1
        if overlapping:
            off_a, off_b = (0, dist) if dist >= 0 else (-dist, 0)
        else:
            off_a, off_b = 0, a["n"] + 8
        total = max(off_a + a["n"], off_b + b["n"]) + 8
        arena = [0] * total
        for i, v in enumerate(a["bytes"]):
            arena[off_a + i] = v
        for i, v in enumerate(b["bytes"]):
            arena[off_b + i] = v  # overlapping bytes agree in the model by construction
        nparams = len(a["params"])
        call = "%s(p1, n1, p2, n2%s)" % (c["fn"], "".join(", a[%d]" % i for i in range(nparams)))
        main = os.path.join(d, "main.cc")
        with open(main, "w") as f:
            f.write('#include "drv2.cc"\n#define CALL %s\n%s' % (call, REPLAY_MAIN))
        exe = os.path.join(d, "replay")
        cxx.compile_native(main, exe, includes=[d])
        pvals = list(a["params"].values())
        stdin = "%d %d %d %d %d\n%s\n%s\n" % (off_a, off_b, a["n"], b["n"], total, " ".join("%x" % v for v in arena),
                                                " ".join(str(v - (1 << 64) if v >> 63 else v) for v in pvals))
        try:
            rc, out, err = cxx.run_native(exe, stdin)
        except subprocess.TimeoutExpired:
            return True, "native run timed out"
        if rc != 0:
            return True, "native run crashed: %s" % (err or out)[-300:]
        got = int(out.split("result")[1].split()[0])
        if c["kind"] == "equals":
            ref = int(c["ref"])
            return got != ref, "native Equals code %d, reference %d (0 unequal / 1 equal / 2 not both Ok)" % (got, ref)
        after = [int(x, 16) for x in out.split("after")[1].split()]
        return True, "native TryToCopyFrom returned %d; arena after: %s (reference obligation violated in the model: %s)" % (
            got, after[:32], c["what"])
    finally:
        shutil.rmtree(d, ignore_errors=True)


def main(tier):
    rep = common.Report("C20", tier, "model_checking")
    mods = struct_check.corpus()
    if tier == "quick":
        slow = ("testdata/dynamic_size.emb", "testdata/bcd.emb")  # minutes of solver time; thorough only
        mods = [m for m in mods if (m[0] in c01.QUICK_MODULES and m[0] not in slow) or struct_check.in_quick_corpus(m[0])]
    results = struct_check.run_corpus(check_module, {"nmax": 12 if tier == "quick" else 24}, mods)
    tot = {"structures": 0, "compared": 0, "queries": 0, "unsat": 0, "witnesses": 0, "instrs": 0}
    skipped, not_encoded = [], []
    seen = {}
    replayed = 0
    for r in results:
        for k in tot:
            tot[k] += getattr(r, k)
        skipped += ["%s: %s (%s)" % (r.module, a, b) for a, b in r.skipped]
        not_encoded += ["%s: %s" % (r.module, x) for x in r.not_encoded]
        for e in r.errors[:3]:
            rep.harness_error(e)
        for u in r.unknown[:10]:
            rep.inconclusive_item("%s: %s" % (r.module, u))
        for s in r.samples[:1]:
            rep.sample(s, cap=8)
        for c in r.candidates:
            key = {"module": c["module"], "struct": c["struct"], "kind": c["kind"]}
            sig = json.dumps(key, sort_keys=True)
            seen[sig] = seen.get(sig, 0) + 1
            if seen[sig] > 1:
                continue
            # at most a dozen native replays per obligation kind: a runtime-level defect shows in every structure
            per_kind = "kind:%s:%s" % (c["kind"], c["what"].split(" ", 1)[-1][:60])
            seen[per_kind] = seen.get(per_kind, 0) + 1
            if seen[per_kind] > 12:
                continue
            ok, observed = replay(c)
            replayed += 1
            if not ok:
                rep.harness_error("candidate did not reproduce natively: %s (%s)" % (c["what"], observed))
                continue
            rep.violation(key, "%s: %s (a: n=%d %s; b: n=%d %s; distance %d)" % (
                c["what"], observed, c["a"]["n"], c["a"]["bytes"], c["b"]["n"], c["b"]["bytes"], c["b_base"] - c["a_base"]), c)
    if tot["witnesses"] == 0:
        rep.harness_error("no reachability witness (vacuous)")
    rep.coverage.update({
        "states": tot["structures"], "transitions": tot["queries"], "traces_validated_against_impl": replayed,
        "exhaustive": False, "obligations_compared": tot["compared"], "unsat": tot["unsat"],
        "ir_instructions_executed": tot["instrs"], "reachability_witnesses": tot["witnesses"],
        "skipped_count": len(skipped), "skipped": skipped[:30], "not_encoded_count": len(not_encoded), "not_encoded": not_encoded[:20],
        "bounds": {"buffers": "two buffers of length 0..N (N = min(%d, max size+2)) at unconstrained addresses in one memory (disjoint and overlapping)" % (12 if tier == "quick" else 24),
                   "arrays": "element count <= 4", "programs": "corpus structures",
                   "outside": "structures with Float fields (fcmp is not encoded); multi-dimensional arrays"},
        "explanation": "states = structures; transitions = solver queries over all pairs of buffer contents/lengths/placements",
    })
    rep.assumptions += ["both views get the same parameter values", "clang 14 -O2 IR; llvm.memmove with its standard semantics"]
    if not_encoded:
        rep.inconclusive_item("%d entry points not encoded (first: %s)" % (len(not_encoded), not_encoded[0]))
    return rep.finish()


def replay_file(path):
    with open(path) as f:
        obj = json.load(f)
    ok, observed = replay(obj["replay"])
    print("replay %s: %s -> %s" % (path, "REPRODUCED" if ok else "did not reproduce", observed))
    if ok:
        print("VIOLATION property=C20 replay=%s" % path)
    return 1 if ok else 0
