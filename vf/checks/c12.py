"""C12 -- every reference is bound to the definition the scoping rules
designate; undefined, duplicate and doubly-visible names are rejected.

E1 (pysym), finite domain: small module templates whose definition sites and
reference sites are filled from choice variables (which names exist in which
scope, which name / path the reference uses, where the reference stands).  The
real front end (glue.parse_emboss_file: module_ir, synthetics, symbol_resolver
...) runs on every combination; the oracle is the rule of the property text,
written over the choice variables:

    a bare name N used at position P denotes the definitions named N in the
    scopes that enclose P (P's own type, the types around it, the module, the
    prelude); exactly one such definition -> bound to it; none -> error; more
    than one -> error (never resolved by precedence).  A dotted path resolves
    its head that way and every later component among the members of what
    the previous component denotes (a type's nested types and enum values, a
    field's type's fields).  Fields are visible only inside their own
    structure, abbreviations only inside their own structure and never
    through a dot.  Two definitions of one name in one scope are an error.

Checked per path: accept/reject, and on acceptance the canonical name the
reference carries in the IR.  In every accepted module every definition's
canonical name is unique and ir_util.find_object leads back to the defining
node.  The domain is finite and enumerated completely; the solver's part is the
path feasibility of the choices and the evaluation of the oracle under the path
condition -- this is said in the manifest.
"""

import itertools
import json
import multiprocessing
import traceback

import z3

from vf import common, pysym

from compiler.front_end import glue, emboss_front_end
from compiler.util import ir_data, ir_util, traverse_ir

HDR = '[$default byte_order: "LittleEndian"]\n'
OTHER = (HDR + "struct Far:\n  0 [+1]  UInt  q\nstruct Aa:\n  0 [+2]  UInt  w\nenum Fe:\n  FV = 3\n"
         "enum Kind:\n  OV = 1\nstruct Packet:\n  0 [+1]  Kind  k\n")


def compile_text(text):
    real = emboss_front_end._find_in_dirs_and_read([common.REPO])

    def rd(name):
        if name == "probe.emb":
            return text, None
        if name == "other.emb":
            return OTHER, None
        return real(name)

    ir, _, errors = glue.parse_emboss_file("probe.emb", rd)
    return ir, errors


def find_type(ir, path, module=0):
    cur = None
    types = ir.module[module].type
    for p in path:
        cur = [t for t in types if t.name.name.text == p][0]
        types = cur.subtype
    return cur


def check_canonical_names(ir):
    """Every definition has a unique canonical name that leads back to it; every resolved reference leads somewhere."""
    problems = []
    seen = {}

    def on_def(nd):
        cn = nd.canonical_name
        key = (cn.module_file, tuple(cn.object_path))
        if key in seen:
            problems.append("canonical name %s given to two definitions" % (key,))
        seen[key] = nd

    for m in ir.module:
        for t in m.type:
            stack = [t]
            while stack:
                x = stack.pop()
                on_def(x.name)
                obj = ir_util.find_object(x.name.canonical_name, ir)
                if obj is not x:
                    problems.append("find_object(%s) does not return the type it names" % list(x.name.canonical_name.object_path))
                if x.has_field("structure"):
                    for f in x.structure.field:
                        on_def(f.name)
                        if ir_util.find_object(f.name.canonical_name, ir) is not f:
                            problems.append("find_object(%s) does not return the field it names" % list(f.name.canonical_name.object_path))
                if x.has_field("enumeration"):
                    for v in x.enumeration.value:
                        on_def(v.name)
                        if ir_util.find_object(v.name.canonical_name, ir) is not v:
                            problems.append("find_object(%s) does not return the enum value it names" % list(v.name.canonical_name.object_path))
                stack.extend(x.subtype)
    return problems


# ----------------------------------------------------------------------
# harness A: type names in nested scopes
# ----------------------------------------------------------------------

NAMES = [None, "Aa", "Bb"]
A_POSITIONS = ["Outer.Mid", "Outer", "Side"]
A_REFS = ["Aa", "Bb", "Cc", "Side.Aa", "Outer.Aa", "Outer.Mid.Aa", "Mid.Aa", "UInt"]


def a_module(n0, n1, n2, n3, n4, pos, ref):
    """n0: module level; n1: in Outer; n2: in Outer.Mid; n3: in Side; n4: a module-level type named like a prelude type."""
    lines = [HDR.rstrip("\n")]
    if n0:
        lines += ["struct %s:" % n0, "  0 [+1]  UInt:8  q"]
    if n4:
        lines += ["struct UInt:", "  0 [+1]  Int:8  q"]
    lines += ["struct Outer:"]
    if n1:
        lines += ["  struct %s:" % n1, "    0 [+1]  Int:8  q"]
    lines += ["  struct Mid:"]
    if n2:
        lines += ["    struct %s:" % n2, "      0 [+1]  Int:8  q"]
    if pos == "Outer.Mid":
        lines += ["    0 [+1]  %s  probe" % ref]
    else:
        lines += ["    0 [+1]  Int:8  filler"]
    if pos == "Outer":
        lines += ["  0 [+1]  %s  probe" % ref]
    else:
        lines += ["  0 [+1]  Int:8  filler"]
    lines += ["struct Side:"]
    if n3:
        lines += ["  struct %s:" % n3, "    0 [+1]  Int:8  q"]
    if pos == "Side":
        lines += ["  0 [+1]  %s  probe" % ref]
    else:
        lines += ["  0 [+1]  Int:8  filler"]
    return "\n".join(lines) + "\n"


def a_expected(n0, n1, n2, n3, n4, pos, ref):
    """-> canonical object path the reference must be bound to (tuple; first item is the module), or None (rejected)."""
    # the tree of type definitions: path -> children names
    defs = {("Outer",): True, ("Outer", "Mid"): True, ("Side",): True}
    if n0:
        defs[(n0,)] = True
    if n1:
        defs[("Outer", n1)] = True
    if n2:
        defs[("Outer", "Mid", n2)] = True
    if n3:
        defs[("Side", n3)] = True
    if n4:
        defs[("UInt",)] = True
    # duplicate definitions in one scope are errors whatever is referenced
    scopes = [[n for n in (n0, "Outer", "Side", "UInt" if n4 else None) if n], [n for n in (n1, "Mid") if n], [n2] if n2 else [], [n3] if n3 else []]
    for names in scopes:
        if len(names) != len(set(names)):
            return None
    prelude = {"UInt", "Int", "Flag", "Bcd", "Float"}
    here = tuple(pos.split("."))
    parts = ref.split(".")
    # candidates for the head: members of every enclosing scope, the module, the prelude
    cands = []
    for k in range(len(here), -1, -1):
        p = here[:k] + (parts[0],)
        if p in defs:
            cands.append(("m",) + p)
    if parts[0] in prelude:
        cands.append(("prelude", parts[0]))
    if len(cands) != 1:
        return None
    cur = cands[0]
    for comp in parts[1:]:
        if cur[0] != "m" or (cur[1:] + (comp,)) not in defs:
            return None
        cur = cur + (comp,)
    # a structure cannot contain itself / the probe must be placeable: referencing the enclosing type is a (different) error
    target = cur[1:]
    if cur[0] == "m" and here[:len(target)] == target:
        return "self"
    return cur


def run_a(part=None):
    out = {"harness": "type names in nested scopes", "paths": 0, "obligations": 0, "discharged": 0, "candidates": [], "accepted": 0, "rejected": 0}
    combos = [c for c in itertools.product(NAMES, NAMES, NAMES, NAMES, [None, "UInt"], A_POSITIONS, A_REFS)
              # keep the product small: the prelude clash only with the reference that names it
              if (c[4] is None or c[6] == "UInt") and (c[6] != "UInt" or c[0] is None)]
    if part is not None:
        combos = combos[part[0]::part[1]]  # work splitting
    holder = {}

    def body(c):
        k = c.choose(len(combos), "combo")
        holder["k"] = k
        return compile_text(a_module(*combos[k]))

    def on_path(pr):
        out["paths"] += 1
        out["obligations"] += 1
        combo = combos[holder["k"]]
        want = a_expected(*combo)
        desc = {"harness": "A", "combo": list(combo), "text": a_module(*combo)}
        if pr.kind == "raise":
            out["candidates"].append(dict(desc, what="front end crashed: %s: %s" % (type(pr.exc).__name__, str(pr.exc)[:100])))
            return
        ir, errors = pr.value
        if want == "self":
            # recursion through the probe itself: must be rejected (by whichever rule)
            if errors:
                out["discharged"] += 1
                out["rejected"] += 1
            else:
                out["candidates"].append(dict(desc, what="a structure containing itself is accepted", rejected=False))
            return
        if errors:
            out["rejected"] += 1
            if want is None:
                out["discharged"] += 1
            else:
                out["candidates"].append(dict(desc, rejected=True, what="rejected (%s) although exactly one definition is visible: %s" % (
                    errors[0][0].message[:60], list(want))))
            return
        out["accepted"] += 1
        if want is None:
            out["candidates"].append(dict(desc, rejected=False, what="accepted although the name is undefined, duplicated or visible from two scopes"))
            return
        t = find_type(ir, combo[5].split("."))
        f = [x for x in t.structure.field if x.name.name.text == "probe"][0]
        cn = f.type.atomic_type.reference.canonical_name
        got = (("prelude",) if cn.module_file == "" else ("m",)) + tuple(cn.object_path)
        problems = check_canonical_names(ir)
        if got != want:
            out["candidates"].append(dict(desc, rejected=False, bound=list(got), what="bound to %s, the scoping rule designates %s" % (list(got), list(want))))
        elif problems:
            out["candidates"].append(dict(desc, rejected=False, what="canonical names: %s" % problems[0]))
        else:
            out["discharged"] += 1

    pysym.explore(body, on_path, max_paths=20000)
    return out


# ----------------------------------------------------------------------
# harness B: field references, members through a dot, abbreviations, enum values, imports, `this`
# ----------------------------------------------------------------------

def b_cases():
    """[(description, module text, expected)]  expected: None = rejected, or (reference owner path, field name,
    canonical path the first reference inside that field's location size must carry)"""
    cases = []
    H = HDR

    def C(desc, text, want):
        cases.append((desc, text, want))

    inner = "struct In:\n  enum Ie:\n    IV = 2\n  0 [+1]  UInt  aa (ab)\n  1 [+1]  UInt  bb\n"
    # own fields and abbreviations, every combination of defined names x referenced name
    for names in itertools.product([0, 1], repeat=3):  # aa, bb, abbreviation `ab` of aa
        for ref in ("aa", "bb", "ab", "zz"):
            fields = []
            off = 0
            if names[0]:
                fields.append("  %d [+1]  UInt  aa%s" % (off, " (ab)" if names[2] else ""))
                off += 1
            if names[1]:
                fields.append("  %d [+1]  UInt  bb" % off)
                off += 1
            text = H + "struct Outer:\n" + "\n".join(fields + ["  %d [+%s]  UInt:8[]  probe" % (off, ref)]) + "\n"
            defined = {"aa": names[0], "bb": names[1], "ab": names[0] and names[2]}
            target = {"aa": "aa", "bb": "bb", "ab": "aa"}.get(ref)
            C("own scope: fields %s, reference %s" % (names, ref), text,
              (("Outer",), "probe", ("Outer", target)) if defined.get(ref) else None)
    # members through a dot
    for ref, want in [("s.aa", ("In", "aa")), ("s.bb", ("In", "bb")), ("s.ab", None), ("s.zz", None), ("s", "nonint"), ("aa", None),
                      ("s.aa.aa", None), ("In.aa", None)]:
        text = H + inner + "struct Outer:\n  0 [+2]  In  s\n  2 [+%s]  UInt:8[]  probe\n" % ref
        C("member access %s" % ref, text, None if want in (None, "nonint") else (("Outer",), "probe", want))
    # a field of the enclosing structure is not visible from a nested structure
    C("field of the enclosing structure from a nested one",
      H + "struct Outer:\n  struct Nested:\n    0 [+zz]  UInt:8[]  probe\n  0 [+1]  UInt  zz\n", None)
    C("field of a nested structure from the enclosing one",
      H + "struct Outer:\n  struct Nested:\n    0 [+1]  UInt  zz\n  0 [+zz]  UInt:8[]  probe\n", None)
    # same field name in two structures: each reference binds to its own
    C("same field name in two structures",
      H + "struct One:\n  0 [+1]  UInt  aa\nstruct Outer:\n  0 [+1]  UInt  aa\n  1 [+aa]  UInt:8[]  probe\n", (("Outer",), "probe", ("Outer", "aa")))
    # enum values
    for ref, want in [("En.VA", ("En", "VA")), ("VA", None), ("En.VZ", None), ("Outer.Ne.NV", ("Outer", "Ne", "NV")), ("Ne.NV", ("Outer", "Ne", "NV")),
                      ("NV", None), ("In.Ie.IV", ("In", "Ie", "IV")), ("Ie.IV", None)]:
        text = (H + inner + "enum En:\n  VA = 1\nstruct Outer:\n  enum Ne:\n    NV = 1\n  0 [+1]  UInt  xx\n"
                "  1 [+(%s == %s ? 1 : 2)]  UInt:8[]  probe\n" % (ref, ref))
        C("enum value %s" % ref, text, None if want is None else (("Outer",), "probe", want))
    # duplicates in one scope; same name in different scopes
    dup = [("two fields", "struct Outer:\n  0 [+1]  UInt  aa\n  1 [+1]  UInt  aa\n", None),
           ("field and abbreviation", "struct Outer:\n  0 [+1]  UInt  aa\n  1 [+1]  UInt  bb (aa)\n", None),
           ("two abbreviations", "struct Outer:\n  0 [+1]  UInt  aa (xx)\n  1 [+1]  UInt  bb (xx)\n", None),
           ("two module-level types", "struct Outer:\n  0 [+1]  UInt  aa\nstruct Outer:\n  0 [+1]  UInt  aa\n", None),
           ("struct and enum", "enum Outer:\n  VA = 1\nstruct Outer:\n  0 [+1]  UInt  aa\n", None),
           ("two nested types", "struct Outer:\n  struct In:\n    0 [+1]  UInt  aa\n  enum In:\n    VA = 1\n  0 [+1]  UInt  aa\n", None),
           ("two enum values", "enum En:\n  VA = 1\n  VA = 2\n", None),
           ("same names in different scopes", "struct In:\n  0 [+1]  UInt  aa (xx)\nstruct Outer:\n  struct In:\n    0 [+1]  UInt  aa (xx)\n"
            "  0 [+1]  UInt  aa (xx)\nenum En:\n  VA = 1\nenum Em:\n  VA = 1\n", "accept"),
           ("abbreviation equal to its own field name", "struct Outer:\n  0 [+1]  UInt  aa (aa)\n", None)]
    for d, body, want in dup:
        C("duplicates: " + d, H + body, want)
    # imports
    imp = 'import "other.emb" as other\n'
    for ref, want in [("other.Far", ("other.emb", "Far")), ("Far", None), ("nother.Far", None), ("other.Zz", None),
                      ("other.Aa", ("other.emb", "Aa")), ("Aa", ("probe.emb", "Aa")), ("other", None)]:
        size = 2 if ref == "other.Aa" else 1
        text = imp + H + "struct Aa:\n  0 [+1]  UInt  q\nstruct Outer:\n  0 [+%d]  %s  probe\n" % (size, ref)
        C("import: type %s" % ref, text, None if want is None else ("type", ("Outer",), "probe", want))
    C("import: two imports under one alias", 'import "other.emb" as other\nimport "other.emb" as other\n' + H + "struct Outer:\n  0 [+1]  UInt  a\n", None)
    # members through aliases: the member is looked up in the type of what the alias denotes
    deep = ("struct Leaf:\n  0 [+1]  UInt  mm\n  1 [+1]  UInt  len\nstruct In:\n  0 [+2]  Leaf  t\n  2 [+1]  UInt  len\n")
    for ref, want in [("al.mm", ("Leaf", "mm")), ("al.len", ("Leaf", "len")), ("al1.len", ("In", "len")), ("al1.t.mm", ("Leaf", "mm")),
                      ("al.zz", None), ("al1.mm", None), ("al2.len", ("Leaf", "len"))]:
        text = H + deep + ("struct Outer:\n  0 [+3]  In  s\n  let al = s.t\n  let al1 = s\n  let al2 = al\n"
                           "  3 [+%s]  UInt:8[]  probe\n" % ref)
        C("member through an alias: %s" % ref, text, None if want is None else (("Outer",), "probe", want))
    # the same type path and the same source names in the importing and the imported module: each binds in its own module
    C("import: same type path and names in both modules",
      imp + H + "enum Kind:\n  MV = 2\nstruct Packet:\n  0 [+1]  Kind  k\n  1 [+1]  other.Packet  p\n",
      ("types", [("probe.emb", ("Packet",), "k", ("probe.emb", "Kind")), ("other.emb", ("Packet",), "k", ("other.emb", "Kind")),
                 ("probe.emb", ("Packet",), "p", ("other.emb", "Packet"))]))
    # inline types: the field's own type is the inline one; a later plain reference to the same name sees two definitions
    C("inline enum alone", H + "struct Foo:\n  0 [+1]  enum  foo:\n    BAR = 1\n",
      ("types", [("probe.emb", ("Foo",), "foo", ("probe.emb", "Foo", "Foo"))]))
    C("inline enum, then a plain reference to a name visible from two scopes",
      H + "struct Foo:\n  0 [+1]  enum  foo:\n    BAR = 1\n  1 [+1]  Foo  other\n", None)
    C("plain reference first, then the inline enum",
      H + "struct Foo:\n  0 [+1]  Foo  other\n  1 [+1]  enum  foo:\n    BAR = 1\n", None)
    # inline types, systematically: kind of the inline type x where its field is declared (directly in the structure,
    # in an anonymous bits, in a named inline struct, in a named inline bits) x another type of the same name visible
    # (none, at module level, in the prelude, the enclosing structure itself).  The field's own type is always the
    # inline one: accepted, and the type reference is bound to a type nested in the structure, never to the other one.
    inl_body = {"enum": "enum  %s:\n%s  VAL = 1\n", "bits": "bits  %s:\n%s  0 [+8]  UInt  low\n", "struct": "struct  %s:\n%s  0 [+1]  UInt  low\n"}
    for kind in ("enum", "bits", "struct"):
        for where in ("direct", "anonymous bits", "named inline struct", "named inline bits"):
            if kind == "struct" and where in ("anonymous bits", "named inline bits"):
                continue  # no byte-oriented members in bits
            for clash in ("none", "module", "prelude", "enclosing"):
                fname = {"none": "probe_field", "module": "other_type", "prelude": "flag", "enclosing": "packet"}[clash]
                tname = "".join(w.capitalize() for w in fname.split("_"))
                pre = ("enum OtherType:\n  OV = 1\n" if clash == "module" else "")

                def decl(ind, start):
                    pad = " " * ind
                    return pad + "%s [+1]  " % start + inl_body[kind] % (fname, pad + "  ")
                if where == "direct":
                    body = decl(2, 0)
                elif where == "anonymous bits":
                    body = "  0 [+1]  bits:\n" + decl(4, 0).replace("[+1]", "[+8]")
                elif where == "named inline struct":
                    body = "  0 [+1]  struct  holder:\n" + decl(4, 0)
                else:
                    body = "  0 [+1]  bits  holder:\n" + decl(4, 0).replace("[+1]", "[+8]")
                C("inline %s %s, same-named type: %s" % (kind, where, clash), H + pre + "struct Packet:\n" + body, ("inline", fname, tname))
    # runtime parameters: names of the structure's own scope
    for desc, body, want in [
        ("parameter referenced in its structure", "struct Par(pp: UInt:8):\n  0 [+pp]  UInt:8[]  probe\n", (("Par",), "probe", ("Par", "pp"))),
        ("parameter not visible from a nested structure", "struct Par(pp: UInt:8):\n  struct Nested:\n    0 [+pp]  UInt:8[]  probe\n  0 [+1]  UInt  aa\n", None),
        ("parameter and field with one name", "struct Par(pp: UInt:8):\n  0 [+1]  UInt  pp\n", None),
        ("two parameters with one name", "struct Par(pp: UInt:8, pp: UInt:8):\n  0 [+1]  UInt  aa\n", None),
        ("parameter named like a field of another structure", "struct One:\n  0 [+1]  UInt  pp\nstruct Par(pp: UInt:8):\n  0 [+pp]  UInt:8[]  probe\n",
         (("Par",), "probe", ("Par", "pp"))),
        ("undefined parameter name", "struct Par(pp: UInt:8):\n  0 [+qq]  UInt:8[]  probe\n", None),
    ]:
        C("parameters: " + desc, H + body, want)
    # `this`
    C("`this` inside [requires] on a field", H + "struct Outer:\n  0 [+1]  UInt  aa\n    [requires: this > 0]\n", "accept")
    C("`this` outside an attribute", H + "struct Outer:\n  0 [+1]  UInt  aa\n  1 [+this]  UInt:8[]  probe\n", None)
    return cases


def _first_reference(expr):
    if expr.has_field("field_reference"):
        return expr.field_reference.path[-1].canonical_name, [list(p.canonical_name.object_path) for p in expr.field_reference.path]
    if expr.has_field("constant_reference"):
        return expr.constant_reference.canonical_name, None
    if expr.has_field("function"):
        for a in expr.function.args:
            r = _first_reference(a)
            if r is not None:
                return r
    return None


def run_b(_=None):
    out = {"harness": "fields, members, abbreviations, enum values, imports, this", "paths": 0, "obligations": 0, "discharged": 0,
           "candidates": [], "accepted": 0, "rejected": 0}
    cases = b_cases()
    holder = {}

    def body(c):
        k = c.choose(len(cases), "case")
        holder["k"] = k
        return compile_text(cases[k][1])

    def on_path(pr):
        out["paths"] += 1
        out["obligations"] += 1
        desc_text, text, want = cases[holder["k"]]
        desc = {"harness": "B", "case": desc_text, "text": text}
        if pr.kind == "raise":
            out["candidates"].append(dict(desc, what="front end crashed: %s: %s" % (type(pr.exc).__name__, str(pr.exc)[:100])))
            return
        ir, errors = pr.value
        if errors:
            out["rejected"] += 1
            if want is None:
                out["discharged"] += 1
            else:
                out["candidates"].append(dict(desc, rejected=True, what="rejected (%s) although the rules designate a definition" % errors[0][0].message[:60]))
            return
        out["accepted"] += 1
        if want is None:
            out["candidates"].append(dict(desc, rejected=False, what="accepted although the name is undefined, invisible, duplicated or ambiguous"))
            return
        problems = check_canonical_names(ir)
        if problems:
            out["candidates"].append(dict(desc, rejected=False, what="canonical names: %s" % problems[0]))
            return
        if want == "accept":
            out["discharged"] += 1
            return
        if want[0] == "types":
            bad = None
            for mod, owner, fname, exp in want[1]:
                mi = [i for i, m in enumerate(ir.module) if m.source_file_name == mod][0]
                t = find_type(ir, owner, mi)
                f = [x for x in t.structure.field if x.name.name.text == fname][0]
                cn = f.type.atomic_type.reference.canonical_name
                got = (cn.module_file,) + tuple(cn.object_path)
                if got != tuple(exp):
                    bad = (mod, owner, fname, got, exp)
                    break
            if bad is None:
                out["discharged"] += 1
            else:
                out["candidates"].append(dict(desc, rejected=False, bound=list(bad[3]),
                                              what="%s %s.%s bound to %s, the scoping rule designates %s" % (
                                                  bad[0], ".".join(bad[1]), bad[2], list(bad[3]), list(bad[4]))))
            return
        if want[0] == "inline":
            _, fname, tname = want
            found = []

            def visit(field):
                if field.name.name.text == fname and field.type is not None and field.type.has_field("atomic_type"):
                    found.append(field)
            traverse_ir.fast_traverse_ir_top_down(ir, [ir_data.Field], visit)
            bad = None
            if not found:
                bad = "field %s not found" % fname
            for f in found:
                cn = f.type.atomic_type.reference.canonical_name
                path = tuple(cn.object_path)
                target = ir_util.find_object(f.type.atomic_type.reference, ir)
                if not (cn.module_file == "probe.emb" and len(path) >= 2 and path[0] == "Packet" and path[-1] == tname
                        and isinstance(target, ir_data.TypeDefinition)):
                    bad = "the inline field %s is bound to %s, not to its own inline type Packet...%s" % (fname, list(path), tname)
            if bad is None:
                out["discharged"] += 1
            else:
                out["candidates"].append(dict(desc, rejected=False, what=bad))
            return
        if want[0] == "type":
            _, owner, fname, (mod, *path) = want
            t = find_type(ir, owner)
            f = [x for x in t.structure.field if x.name.name.text == fname][0]
            cn = f.type.atomic_type.reference.canonical_name
            got = (cn.module_file,) + tuple(cn.object_path)
            exp = (mod,) + tuple(path)
        else:
            owner, fname, path = want
            t = find_type(ir, owner)
            f = [x for x in t.structure.field if x.name.name.text == fname][0]
            r = _first_reference(f.location.size)
            got = tuple(r[0].object_path) if r is not None else None
            exp = tuple(path)
        if got == exp:
            out["discharged"] += 1
        else:
            out["candidates"].append(dict(desc, rejected=False, bound=list(got) if got else None,
                                          what="bound to %s, the scoping rule designates %s" % (list(got) if got else None, list(exp))))

    pysym.explore(body, on_path, max_paths=5000)
    return out


def _job(which):
    try:
        return run_a(which[1]) if which[0] == "A" else run_b()
    except Exception as e:  # pylint: disable=broad-except
        return {"error": "".join(traceback.format_exception(type(e), e, e.__traceback__))[-1200:], "harness": which}


def replay(c):
    """The front end is the real code already; a replay re-runs it on the concrete module in this process."""
    try:
        ir, errors = compile_text(c["text"])
    except Exception as e:  # pylint: disable=broad-except
        return True, "front end crashed with %s: %s on\n%s" % (type(e).__name__, str(e)[:100], c["text"])
    if "rejected" not in c:
        return False, "no crash on replay"
    if bool(errors) != c["rejected"]:
        return False, "front end %s on replay" % ("rejects" if errors else "accepts")
    return True, "front end %s:\n%s" % ("rejects (%s)" % errors[0][0].message[:80] if errors else "accepts", c["text"])


def main(tier):
    rep = common.Report("C12", tier, "proof")
    nparts = 12
    with multiprocessing.Pool(min(common.ncpu(), nparts + 1)) as pool:
        results = pool.map(_job, [("A", (k, nparts)) for k in range(nparts)] + [("B", None)], chunksize=1)
    tot = {"paths": 0, "obligations": 0, "discharged": 0}
    seen = {}
    per = {}
    for r in results:
        if "error" in r:
            rep.harness_error("%s: %s" % (r["harness"], r["error"]))
            continue
        for k in tot:
            tot[k] += r[k]
        p = per.setdefault(r["harness"], {"paths": 0, "accepted": 0, "rejected": 0})
        for k in p:
            p[k] += r[k]
        for c in r["candidates"]:
            key = {"harness": c["harness"], "what": c["what"][:40]}
            sig = json.dumps(key, sort_keys=True)
            seen[sig] = seen.get(sig, 0) + 1
            if seen[sig] > 3:
                continue
            ok, observed = replay(c)
            if ok:
                rep.violation(key, "C12 %s: %s; %s" % (c.get("case") or c.get("combo"), c["what"], observed), c)
            else:
                rep.harness_error("candidate did not reproduce: %s (%s)" % (c["what"], observed))
    for name, p in per.items():
        if not p["accepted"] or not p["rejected"]:
            rep.harness_error("%s: accepted=%d rejected=%d (vacuous)" % (name, p["accepted"], p["rejected"]))
    rep.sample({"harness": "A", "template": "types named Aa/Bb at module level, in Outer, in Outer.Mid, in Side; a field of type <ref> in Outer.Mid / Outer / Side",
                "oracle": "exactly one definition of the head among the enclosing scopes, module and prelude, then members; else rejected"})
    rep.sample(per)
    rep.coverage.update({
        "obligations": tot["obligations"], "discharged": tot["discharged"],
        "checker_cmd": "python3-vt /verif/check C12 --tier %s" % tier,
        "trusted_base": ["z3", "vf/pysym.py", "the scoping rule as written in vf/checks/c12.py from the property text"],
        "paths": tot["paths"], "per_harness": per,
        "functions_encoded": ["whole front end (glue.parse_emboss_file): module_ir, synthetics, symbol_resolver.resolve_symbols, "
                              "symbol_resolver.resolve_field_references, ir_util.find_object"],
        "bounds": {"type names": "names Aa/Bb/absent at four definition sites (+ a local type named like a prelude type), three reference positions, "
                                 "eight reference forms (bare, dotted, prelude)",
                   "other": "own fields x abbreviation x reference; members through a dot; enum values (qualified, bare, nested); duplicates in one scope "
                            "and equal names in different scopes; one import (qualified, bare, wrong alias, clash with a local name, equal type paths in both modules); "
                            "members through aliases of fields, of paths and of aliases; inline types (kind x declared directly / in an anonymous bits / in a named inline struct or bits x a same-named type at module level, in the prelude, or the enclosing structure); runtime parameters; `this`",
                   "outside": "longer paths and deeper nesting than the templates; `$next`; names across more than one import"},
        "note": "finite domain: the paths enumerate every combination; the solver decides path feasibility of the choices and nothing else",
    })
    return rep.finish()


def replay_file(path):
    with open(path) as f:
        obj = json.load(f)
    ok, observed = replay(obj["replay"])
    print("replay %s: %s -> %s" % (path, "REPRODUCED" if ok else "did not reproduce", observed))
    if ok:
        print("VIOLATION property=C12 replay=%s" % path)
    return 1 if ok else 0
