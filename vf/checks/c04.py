"""C04 -- checked view operations never leave the buffer or hit undefined
behaviour.  E2 on the -O2 build and on the sanitizer-trap build
(-fsanitize=undefined,bounds -fsanitize-trap=all): every memory access inside
the backing buffer, every llvm.ubsantrap / __assert_fail site unreachable,
every flagged (nuw/nsw/exact) operation overflow-free, for all buffers."""

import json

from vf import common, kernels, kernel_check


def classify(cand):
    cfg = cand["cfg"]
    what = cand.get("what", "")
    kind = "other"
    for k in ("oob-read", "oob-write", "misaligned", "trap", "assert", "nsw", "nuw", "exact", "shift-amount",
              "div-by-zero", "assume", "memop-bound"):
        if " %s at " % k in what:
            kind = k
            break
    key = {"type": cfg["ty"], "kind": kind, "level": "kernel"}
    if cfg["order"] == "Null":
        key["byte_order"] = "Null"
    return key


def replay(cand):
    """Native run with ASan+UBSan and the runtime's checks enabled: the
    violation reproduces if the process is killed by a sanitizer or assert."""
    cfg = kernels.cfg_from_dict(cand["cfg"])
    writable = "_try" in cand.get("fn", "") or "_could" in cand.get("fn", "")
    fn = cand.get("fn", "")
    fn_kind = 0
    if "_try" in fn or "_could" in fn:
        fn_kind = 2 if fn.endswith("u") else 1
    obs = kernel_check.native_run(cfg, cand.get("n", 0), cand.get("bytes", []), x=cand.get("x", 0), fn_kind=fn_kind,
                                  writable=writable, is_null=cand.get("null", False))
    if "crash" in obs:
        return True, "sanitizer/assert report: %s" % obs["crash"][:600], obs
    return False, "native run finished cleanly", obs


def main(tier):
    rep = common.Report("C04", tier, "model_checking")
    cfgs = kernels.config_space(tier, common.seed())
    if tier == "quick":
        cfgs = cfgs[::6]
    else:
        # two builds x read/write safety over ~115k configurations is beyond a run; an eighth per run, rotated by the seed
        k = common.seed() % 8
        cfgs = cfgs[k::8]
    totals = []
    for mode in ("safety_r", "safety_w"):
        t = kernel_check.run_all(mode, cfgs)
        totals.append(t)
    from vf.checks import c04s
    st = c04s.run(rep, tier)
    seen = {}
    replayed = 0
    nq = nf = ni = nw = ncfg = 0
    sites = {}
    not_encoded = []
    for t in totals:
        for e in t.errors[:5]:
            rep.harness_error(e)
        for u in t.unknown[:30]:
            rep.inconclusive_item(u)
        nq += t.queries
        nf += t.functions
        ni += t.instrs
        nw += t.witnesses
        ncfg += t.configs
        not_encoded += t.not_encoded
        for k, v in t.obligation_sites.items():
            sites[k] = sites.get(k, 0) + v
        for s in t.samples[:3]:
            rep.sample(s)
        for cand in t.candidates:
            key = classify(cand)
            sig = json.dumps(key, sort_keys=True)
            seen[sig] = seen.get(sig, 0) + 1
            if seen[sig] > 3:
                continue
            ok, observed, obs = replay(cand)
            replayed += 1
            if not ok:
                # standard-level UB without an observable effect is reported separately, never as a violation
                rep.inconclusive_item("candidate without native reproduction: %s (%s)" % (cand.get("what"), observed))
                continue
            if seen[sig] == 1 or rep.match_known(key) is None:
                rep.violation(key, "%s: %s [%s]" % (cand.get("what"), observed, kernels.cfg_from_dict(cand["cfg"])), cand)
    if nw == 0:
        rep.harness_error("no reachability witness (vacuous)")
    rep.coverage.update({
        "states": ncfg + st.get("structures", 0),
        "transitions": nq + st.get("queries", 0),
        "traces_validated_against_impl": replayed + st.get("replayed", 0),
        "exhaustive": False,
        "kernel_configurations": ncfg, "functions_encoded": nf, "ir_instructions_executed": ni,
        "queries": nq, "obligation_sites_by_kind": sites, "reachability_witnesses": nw,
        "not_encoded": not_encoded[:20], "not_encoded_count": len(not_encoded),
        "candidates_classified": seen, "structure_level": st,
        "bounds": {"configurations": "quick: every sixth configuration of the quick space; thorough: every eighth configuration of the full "
                                     "space (~115k), the eighth chosen by the seed; structure level: corpus",
                   "buffer_length": "0..%d bytes, and the null buffer" % kernel_check.NMAX,
                   "builds": "clang -O2 and clang -O1 -fsanitize=undefined,bounds -fsanitize-trap=all",
                   "outside": "text output / UpdateFromText (std::string, iostream: not encodable); buffers >= 2^61 bytes"},
        "explanation": "states = configurations/structures; transitions = reachability queries, one per access/trap/assert/flag site and entry point",
    })
    rep.assumptions += ["base pointer aligned as the ContiguousBuffer template promises (its constructor DCHECK)",
                        "flat 64-bit address space; the buffer does not wrap; clang 14 x86-64 IR"]
    if not_encoded:
        rep.inconclusive_item("%d configurations not encoded (first: %s)" % (len(not_encoded), not_encoded[0]))
    return rep.finish()


def replay_file(path):
    with open(path) as f:
        obj = json.load(f)
    ok, observed, _ = replay(obj["replay"])
    print("replay %s: %s -> %s" % (path, "REPRODUCED" if ok else "did not reproduce", observed))
    if ok:
        print("VIOLATION property=C04 replay=%s" % path)
    return 1 if ok else 0
