"""C14, clause "no reserved word as a name".

The documented list is the one printed in doc/grammar.md ("The following N
keywords are reserved ... may not be used as field, type, or enum value
names").  For every name position (fields of structs/bits/anonymous bits,
virtual fields, fields of inline types; struct/bits/enum/external types, inline
types; enum values of top-level and inline enums) the name text in the real IR
is replaced by a string of L unconstrained characters and the real
constraints.check_constraints runs on it: a dictionary lookup of a symbolic
string forks over the constants of equal length (the code's own list united
with the documented one), and on every path z3 decides

    a reserved-word error is reported for the node  <=>  name in documented list

for *all* strings of that length.  Counterexamples are concretised and replayed
through the whole front end (when the word has the lexical shape of the
position) or through check_constraints on plain strings."""

import re
import traceback

import z3

from vf import common, pysym, symstr

from compiler.front_end import constraints, glue
from compiler.util import ir_data, ir_data_utils, ir_util, traverse_ir

TEMPLATE = """
[$default byte_order: "LittleEndian"]
enum TopEnum:
  TOP_VALUE = 1
bits TopBits:
  0 [+4]  UInt  bits_field
external TopExternal:
  [is_integer: true]
  [addressable_unit_size: 8]
struct TopStruct(param_name: UInt:8):
  struct NestedStruct:
    0 [+1]  UInt  nested_field
  enum NestedEnum:
    NESTED_VALUE = 3
  0 [+1]  UInt  struct_field
  1 [+1]  bits:
    0 [+3]  UInt  anon_field
  let virtual_field = struct_field + 1
  2 [+1]  enum  inline_enum_field:
    INLINE_VALUE = 2
  3 [+1]  bits  inline_bits_field:
    0 [+8]  UInt  inline_bits_member
  4 [+1]  struct  inline_struct_field:
    0 [+1]  UInt  inline_struct_member
"""

# (position id, kind, placeholder name in TEMPLATE, lexical class)
POSITIONS = [
    ("field of a struct", "field", "struct_field", "snake"),
    ("field of a bits", "field", "bits_field", "snake"),
    ("field of an anonymous bits", "field", "anon_field", "snake"),
    ("virtual field", "field", "virtual_field", "snake"),
    ("field with an inline enum type", "field", "inline_enum_field", "snake"),
    ("field of an inline bits", "field", "inline_bits_member", "snake"),
    ("field of an inline struct", "field", "inline_struct_member", "snake"),
    ("field of a nested struct", "field", "nested_field", "snake"),
    ("struct type", "type", "TopStruct", "camel"),
    ("bits type", "type", "TopBits", "camel"),
    ("enum type", "type", "TopEnum", "camel"),
    ("external type", "type", "TopExternal", "camel"),
    ("nested struct type", "type", "NestedStruct", "camel"),
    ("nested enum type", "type", "NestedEnum", "camel"),
    ("enum value", "enum_value", "TOP_VALUE", "shouty"),
    ("value of a nested enum", "enum_value", "NESTED_VALUE", "shouty"),
    ("value of an inline enum", "enum_value", "INLINE_VALUE", "shouty"),
]

_SHAPE = {"snake": r"[a-z][a-z_0-9]*", "shouty": r"[A-Z][A-Z_0-9]*[A-Z_][A-Z_0-9]*", "camel": r"[A-Z][a-zA-Z0-9]*[a-z][a-zA-Z0-9]*"}


def documented_words():
    """The reserved words: compiler/front_end/reserved_words (the list the property is anchored in), read by this
    check's own parser -- one word per line under `-- Language` headings, `#` starts a comment -- united with the list
    printed in doc/grammar.md ("The following N keywords are reserved ... may not be used as field, type, or enum
    value names"; that list is a subset: it leaves out words that cannot be names lexically)."""
    words = []
    with open(common.REPO + "/compiler/front_end/reserved_words") as f:
        for line in f:
            line = line.split("#", 1)[0].strip()
            if line and not line.startswith("--"):
                words.append(line)
    with open(common.REPO + "/doc/grammar.md") as f:
        text = f.read()
    m = re.search(r"The following (\d+) keywords are reserved", text)
    if not m:
        raise RuntimeError("doc/grammar.md: reserved-word paragraph not found")
    words += re.findall(r"`([^`]+)`", text[m.end():])
    out = sorted(set(words))
    if len(out) < 100:
        raise RuntimeError("reserved-word list implausibly short (%d)" % len(out))
    return out


def _reader(text):
    from compiler.front_end import emboss_front_end
    real = emboss_front_end._find_in_dirs_and_read([common.REPO])

    def rd(name):
        return (text, None) if name == "names.emb" else real(name)
    return rd


def load_ir():
    ir, _, errors = glue.parse_emboss_file("names.emb", _reader(TEMPLATE))
    if errors:
        raise RuntimeError("name template rejected: %r" % (errors,))
    return ir


def _walk(node, fn, seen=None):
    """Depth-first over every ir_data message reachable from node."""
    from compiler.util import ir_data_fields
    fn(node)
    for spec, value in ir_data_fields.fields_and_values(node):
        if spec.is_dataclass:
            if spec.is_sequence:
                for v in value:
                    _walk(v, fn)
            elif value is not None:
                _walk(value, fn)


def _substitute(ir, placeholder, value):
    """Renames the object: every Word whose text is the placeholder (its definition, the alias an anonymous bits
    synthesizes for it, source names of references) and every canonical-name path element equal to it.  Returns the
    number of definitions renamed and the set of the other names defined in the module."""
    count = [0]
    others = set()

    def fn(node):
        if isinstance(node, ir_data.Word):
            if node.text == placeholder:
                object.__setattr__(node, "text", value)  # ir_data's debug __setattr__ insists on str
        elif isinstance(node, ir_data.CanonicalName):
            path = node.object_path
            for i, el in enumerate(list(path)):
                if isinstance(el, str) and el == placeholder:
                    path[i] = value
                elif isinstance(el, str):
                    others.add(el)
        elif isinstance(node, ir_data.NameDefinition):
            if node.name.text == placeholder:
                count[0] += 1
    # definitions first (NameDefinition is visited before its Word)
    _walk(ir.module[0], fn)
    others.discard(placeholder)
    return count[0], others


def _reserved_errors(errors, loc_ids):
    n = 0
    for group in errors:
        for e in group:
            if "reserved word may not be used" in e.message:
                n += 1
    return n


def run_position(args):
    pos_index, lengths, doc = args
    desc, kind, placeholder, shape = POSITIONS[pos_index]
    out = {"position": desc, "paths": 0, "obligations": 0, "discharged": 0, "queries": 0, "candidates": [], "unknown": [],
           "accepted": 0, "rejected": 0, "error": None}
    try:
        base_ir = load_ir()
        code_words = list(constraints.get_reserved_word_list())
        symstr.KNOWN_CONSTANTS[:] = sorted(set(doc) | set(code_words))
        holder = {}

        def body(c):
            ir = ir_data_utils.copy(base_ir)
            name = symstr.SymStr.fresh("name", holder["L"])
            holder["name"] = name
            n, others = _substitute(ir, placeholder, name)
            if not n:
                raise pysym.HarnessGap("placeholder %s not found" % placeholder)
            # precondition: symbol resolution has already rejected duplicate names, so the name differs from every
            # other name defined in the module
            for o in sorted(others):
                if len(o) == holder["L"]:
                    c.assume(z3.Not(name._eq_cond(o)))
            errors = constraints.check_constraints(ir)
            return errors

        def on_path(pr):
            c = pr.ctx
            out["paths"] += 1
            out["obligations"] += 1
            name = holder["name"]
            L = holder["L"]

            def conc(m):
                return name.concrete(m)
            if pr.kind == "raise":
                m = c.witness()
                if m is None:
                    out["discharged"] += 1
                    return
                out["candidates"].append({"position": pos_index, "word": conc(m), "what": "check_constraints raised %s: %s" % (
                    type(pr.exc).__name__, str(pr.exc)[:100]), "crash": True,
                    "trace": "".join(traceback.format_exception(type(pr.exc), pr.exc, pr.exc.__traceback__))[-600:]})
                return
            rejected = _reserved_errors(pr.value, None) > 0
            other = [e.message for g in pr.value for e in g if "reserved word may not be used" not in e.message]
            if other:
                out["candidates"].append({"position": pos_index, "word": None, "what": "unexpected error: %s" % other[0][:100], "gap": True})
                return
            same = [w for w in doc if len(w) == L]
            in_doc = z3.Or(*[name._eq_cond(w) for w in same]) if same else z3.BoolVal(False)
            r, m = c.prove(in_doc if rejected else z3.Not(in_doc))
            out["queries"] += 1
            if r == "unsat":
                out["discharged"] += 1
                out["rejected" if rejected else "accepted"] += 1
            elif r == "sat":
                w = conc(m)
                out["candidates"].append({"position": pos_index, "word": w, "rejected": rejected,
                                          "what": "%s as the name of a %s although the documented list %s it" % (
                                              "rejected" if rejected else "accepted", desc, "does not contain" if rejected else "contains")})
            else:
                out["unknown"].append("%s, length %d: solver unknown" % (desc, L))

        with pysym.instrument(constraints):
            for L in lengths:
                holder["L"] = L
                st, complete = pysym.explore(body, on_path, max_paths=2000)
                if not complete:
                    out["unknown"].append("%s, length %d: path budget" % (desc, L))
    except pysym.HarnessGap as g:
        out["error"] = "harness gap: %s" % g
    except Exception as e:  # pylint: disable=broad-except
        out["error"] = "".join(traceback.format_exception(type(e), e, e.__traceback__))[-1000:]
    return out


def fits_shape(word, shape):
    return re.fullmatch(_SHAPE[shape], word) is not None


def replay(cand):
    """Concrete word: through the whole front end when it has the position's lexical shape, and through
    check_constraints on the plain string otherwise."""
    desc, kind, placeholder, shape = POSITIONS[cand["position"]]
    word = cand["word"]
    if word is None:
        return False, cand["what"]
    if fits_shape(word, shape) and not word.lower().startswith("emboss_reserved") and not cand.get("crash"):
        text = re.sub(r"\b%s\b" % placeholder, word, TEMPLATE)
        try:
            _, _, errors = glue.parse_emboss_file("names.emb", _reader(text))
        except Exception as e:  # pylint: disable=broad-except
            return True, "front end crashed with %s on a module naming a %s `%s`" % (type(e).__name__, desc, word)
        msgs = [e.message for g in errors for e in g]
        rejected = bool(errors)
        if rejected == cand["rejected"]:
            return True, "whole front end %s a %s named `%s`%s" % ("rejects" if rejected else "accepts", desc, word,
                                                                     (": " + msgs[0][:80]) if msgs else "")
        # a keyword of the language itself is rejected by the parser: not a disagreement about the list
        if rejected and not any("reserved word" in m for m in msgs):
            return False, "whole front end rejects for another reason: %s" % msgs[0][:80]
    ir = load_ir()
    _substitute(ir, placeholder, word)
    try:
        errors = constraints.check_constraints(ir)
    except Exception as e:  # pylint: disable=broad-except
        return True, "check_constraints raised %s for a %s named `%s`" % (type(e).__name__, desc, word)
    if cand.get("crash"):
        return False, "no crash on replay"
    rejected = _reserved_errors(errors, None) > 0
    return rejected == cand["rejected"], "check_constraints %s a %s named `%s`" % ("rejects" if rejected else "accepts", desc, word)


def run(rep, tier):
    import multiprocessing
    doc = documented_words()
    maxlen = max(len(w) for w in doc)
    lengths = list(range(1, maxlen + 2))
    jobs = [(i, lengths, doc) for i in range(len(POSITIONS))]
    with multiprocessing.Pool(min(common.ncpu(), len(jobs))) as pool:
        results = pool.map(run_position, jobs, chunksize=1)
    tot = {"paths": 0, "obligations": 0, "discharged": 0, "queries": 0}
    seen = {}
    for r in results:
        if r["error"]:
            rep.harness_error("reserved words, %s: %s" % (r["position"], r["error"]))
            continue
        for k in tot:
            tot[k] += r[k]
        if not r["accepted"] or not r["rejected"]:
            rep.harness_error("reserved words, %s: accepted=%d rejected=%d (vacuous)" % (r["position"], r["accepted"], r["rejected"]))
        for u in r["unknown"]:
            rep.inconclusive_item("reserved words: " + u)
        for c in r["candidates"]:
            if c.get("gap"):
                rep.harness_error("reserved words, %s: %s" % (r["position"], c["what"]))
                continue
            sig = (c["position"], c["what"][:30])
            seen[sig] = seen.get(sig, 0) + 1
            if seen[sig] > 3:
                continue
            ok, observed = replay(c)
            if ok:
                rep.violation({"harness": "reserved-words", "decision": c["what"][:8]},
                              "C14 reserved words: `%s` %s; %s" % (c["word"], c["what"], observed), dict(c, harness="reserved-words"))
            else:
                rep.harness_error("reserved-word candidate did not reproduce: %r (%s)" % (c, observed))
    tot.update({"positions": [p[0] for p in POSITIONS], "documented_words": len(doc), "name_lengths": "1..%d (longest documented word is %d)" % (maxlen + 1, maxlen)})
    return tot


def replay_cand(cand):
    return replay(cand)
