"""C15 -- dependency cycles are always rejected; field order respects
dependencies.  E1: dependency_checker._find_cycles (Tarjan) and
_find_dependency_ordering_for_fields_in_structure run on graphs whose edge
sets are symbolic (an N x N matrix of Boolean solver variables behind set
proxies); oracles are z3 formulas over the matrix (reachability by unrolled
Warshall closure; topological-order conditions).

Honest note (DESIGN.md): Tarjan looks at every edge, so each of its paths
fixes the whole matrix and the exploration is a complete case analysis of the
2^(N^2) graphs; the ordering function short-circuits and its paths cover sets
of graphs."""

import itertools
import json
import multiprocessing
import time
import traceback

import z3

from vf import common, pysym

from compiler.front_end import dependency_checker, glue
from compiler.util import ir_data, ir_util


def node(i):
    return ("m.emb", "S", "f%d" % i)


class SymSet:
    """A set of node labels whose membership is decided by solver Booleans."""

    def __init__(self, members):
        self.members = members  # [(label, z3 Bool)]

    def __iter__(self):
        c = pysym.ctx()
        for label, b in self.members:
            if c.fork(b):
                yield label

    def __contains__(self, x):
        c = pysym.ctx()
        for label, b in self.members:
            if label == x:
                return c.fork(b)
        return False

    def __len__(self):
        return sum(1 for _ in self)

    def __bool__(self):
        return len(self) > 0


def closure(E, n):
    R = [[E[i][j] for j in range(n)] for i in range(n)]
    for k in range(n):
        R = [[z3.Or(R[i][j], z3.And(R[i][k], R[k][j])) for j in range(n)] for i in range(n)]
    return R


def run_cycles(n):
    out = {"n": n, "paths": 0, "obligations": 0, "discharged": 0, "candidates": [], "unknown": 0, "cyclic": 0, "acyclic": 0}
    holder = {}

    def body(c):
        E = [[z3.Bool("e_%d_%d" % (i, j)) for j in range(n)] for i in range(n)]
        holder["E"] = E
        graph = {node(i): SymSet([(node(j), E[i][j]) for j in range(n)]) for i in range(n)}
        return dependency_checker._find_cycles(graph)

    def on_path(pr):
        c = pr.ctx
        out["paths"] += 1
        E = holder["E"]
        R = closure(E, n)

        def matrix(m):
            return [[1 if z3.is_true(m.eval(E[i][j], model_completion=True)) else 0 for j in range(n)] for i in range(n)]

        out["obligations"] += 1
        if pr.kind == "raise":
            m = c.witness()
            if m is not None:
                out["candidates"].append({"kind": "cycles", "n": n, "matrix": matrix(m), "what": "exception %r" % pr.exc})
            return
        comps = pr.value
        where = {}
        for comp in comps:
            for lbl in comp:
                where.setdefault(lbl, []).append(comp)
        conds = []
        for i in range(n):
            conds.append(R[i][i] == z3.BoolVal(node(i) in where and len(where[node(i)]) == 1))
            for j in range(n):
                if i != j:
                    same = node(i) in where and node(j) in where and where[node(i)][0] is where[node(j)][0]
                    conds.append(z3.And(R[i][j], R[j][i]) == z3.BoolVal(bool(same)))
        r, m = c.prove(z3.And(*conds))
        if r == "unsat":
            out["discharged"] += 1
            out["cyclic" if comps else "acyclic"] += 1
        elif r == "sat":
            out["candidates"].append({"kind": "cycles", "n": n, "matrix": matrix(m),
                                      "what": "components %s are not the strongly connected components containing a cycle" % sorted(sorted(x[2] for x in comp) for comp in comps)})
        else:
            out["unknown"] += 1

    with pysym.instrument():
        st, complete = pysym.explore(body, on_path, max_paths=200000)
    if not complete:
        out["unknown"] += 1
    return out


def run_ordering(n):
    out = {"n": n, "paths": 0, "obligations": 0, "discharged": 0, "candidates": [], "unknown": 0, "reordered": 0, "identity": 0}
    holder = {}

    def body(c):
        E = [[z3.Bool("e_%d_%d" % (i, j)) for j in range(n)] for i in range(n)]
        rank = [z3.Int("rank%d" % i) for i in range(n)]
        holder["E"] = E
        for i in range(n):
            c.assume(z3.And(rank[i] >= 0, rank[i] < n))
            for j in range(n):
                c.assume(z3.Implies(E[i][j], rank[j] < rank[i]))  # acyclic (cycles are rejected by an earlier pass)
        fields = [ir_data.Field(name=ir_data.NameDefinition(name=ir_data.Word(text="f%d" % i),
                                                            canonical_name=ir_data.CanonicalName(module_file="m.emb", object_path=["S", "f%d" % i])))
                  for i in range(n)]
        # any mix of physical and virtual fields (the order must not depend on the kind)
        mask = c.choose(2 ** n, "virtual_mask") if n <= 4 else 0
        holder["mask"] = mask
        for i in range(n):
            if (mask >> i) & 1:
                fields[i].read_transform = ir_data.Expression(constant=ir_data.NumericConstant(value="1"))
            else:
                fields[i].location = ir_data.FieldLocation()
        structure = ir_data.Structure(field=fields)
        tdef = ir_data.TypeDefinition(structure=structure)
        deps = {node(i): SymSet([(node(j), E[i][j]) for j in range(n)]) for i in range(n)}
        dependency_checker._find_dependency_ordering_for_fields_in_structure(structure, tdef, deps)
        return list(structure.fields_in_dependency_order)

    def on_path(pr):
        c = pr.ctx
        out["paths"] += 1
        E = holder["E"]

        def matrix(m):
            return [[1 if z3.is_true(m.eval(E[i][j], model_completion=True)) else 0 for j in range(n)] for i in range(n)]

        out["obligations"] += 1
        if pr.kind == "raise":
            m = c.witness()
            if m is not None:
                out["candidates"].append({"kind": "ordering", "n": n, "matrix": matrix(m), "what": "exception %s: %s" % (type(pr.exc).__name__, str(pr.exc)[:80])})
            else:
                out["discharged"] += 1
            return
        order = pr.value
        if sorted(order) != list(range(n)):
            m = c.witness()
            out["candidates"].append({"kind": "ordering", "n": n, "matrix": matrix(m) if m else None, "what": "order %s is not a permutation" % order})
            return
        pos = {f: k for k, f in enumerate(order)}
        conds = []
        for i in range(n):
            for j in range(n):
                if pos[j] >= pos[i]:
                    conds.append(z3.Not(E[i][j]))  # every dependency precedes its dependent
        identity_ok = z3.And(*[z3.Not(E[i][j]) for i in range(n) for j in range(n) if j >= i])
        if order != list(range(n)):
            conds.append(z3.Not(identity_ok))  # source order is kept whenever it is already valid
            out["reordered"] += 1
        else:
            out["identity"] += 1
        r, m = c.prove(z3.And(*conds) if conds else z3.BoolVal(True))
        if r == "unsat":
            out["discharged"] += 1
        elif r == "sat":
            out["candidates"].append({"kind": "ordering", "n": n, "matrix": matrix(m), "virtual_mask": holder.get("mask", 0),
                                      "what": "order %s violates a dependency or needlessly departs from the source order" % order})
        else:
            out["unknown"] += 1

    with pysym.instrument():
        st, complete = pysym.explore(body, on_path, max_paths=200000)
    if not complete:
        out["unknown"] += 1
    return out


# ---- whole-front-end validation: graphs rendered as .emb ----------------


def emb_for(matrix):
    n = len(matrix)
    lines = ['[$default byte_order: "LittleEndian"]', "struct Graph:", "  0 [+1]  UInt  base"]
    for i in range(n):
        deps = [j for j in range(n) if matrix[i][j]]
        rhs = " + ".join(["base"] + ["f%d" % j for j in deps])
        lines.append("  let f%d = %s" % (i, rhs))
    return "\n".join(lines) + "\n"


def emb_for2(matrix, variant):
    """Physical fields whose dependencies run through a field location, an
    existence condition or an argument of a parameterised type."""
    n = len(matrix)
    lines = ['[$default byte_order: "LittleEndian"]', "struct Par(p: UInt:8):", "  0 [+1]  UInt  q",
             "struct Graph:", "  0 [+1]  UInt  base"]
    mech = lambda i, j: (i + 2 * j + variant) % 3
    is_par = [any(matrix[i][j] and mech(i, j) == 2 for j in range(n)) for i in range(n)]
    ref = lambda j: ("f%d.q" % j) if is_par[j] else ("f%d" % j)
    for i in range(n):
        loc, cond, param = [], [], None
        for j in range(n):
            if matrix[i][j]:
                if mech(i, j) == 2 and param is None:
                    param = ref(j)
                elif mech(i, j) == 1:
                    cond.append("%s == 0" % ref(j))
                else:
                    loc.append(ref(j))
        start = " + ".join(["%d" % (1 + i)] + loc)
        ty = "Par(%s)" % param if param else "UInt"
        if cond:
            lines.append("  if %s:" % " && ".join(cond))
            lines.append("    %s [+1]  %s  f%d" % (start, ty, i))
        else:
            lines.append("  %s [+1]  %s  f%d" % (start, ty, i))
    return "\n".join(lines) + "\n"


def emb_for3(matrix, variant):
    """Nodes spread over several types: constant virtual fields (and, in one variant, an enum value) that
    refer to each other with `Type.name` references, so a cycle runs through two or three scopes."""
    n = len(matrix)
    k = 2 if variant == 10 else 3
    owner = lambda i: i % k
    as_enum = lambda i: variant == 12 and i == 0
    ref = lambda j: ("(Ee.VAL%d == Ee.VAL%d ? 1 : 0)" % (j, j)) if as_enum(j) else ("Tt%d.f%d" % (owner(j), j))
    lines = ['[$default byte_order: "LittleEndian"]']
    for t in range(k):
        lines.append("struct Tt%d:" % t)
        lines.append("  0 [+1]  UInt  base")
        for i in range(n):
            if owner(i) == t and not as_enum(i):
                lines.append("  let f%d = %s" % (i, " + ".join(["1"] + [ref(j) for j in range(n) if matrix[i][j]])))
    if variant == 12:
        lines.append("enum Ee:")
        lines.append("  VAL0 = %s" % " + ".join(["1"] + [ref(j) for j in range(n) if matrix[0][j]]))
    return "\n".join(lines) + "\n"


def emb_for4(matrix, variant):
    """One structure; every edge is rendered either as a local reference (`fJ`) or as a static reference
    (`Graph.fJ`), by parity -- a cycle generally needs both kinds of edge."""
    n = len(matrix)
    static = lambda i, j: (i + j + variant) % 2 == 0
    lines = ['[$default byte_order: "LittleEndian"]', "struct Graph:", "  0 [+1]  UInt  base"]
    for i in range(n):
        refs = [("Graph.f%d" % j) if static(i, j) else ("f%d" % j) for j in range(n) if matrix[i][j]]
        lines.append("  let f%d = %s" % (i, " + ".join(["1"] + refs)))
    return "\n".join(lines) + "\n"


def render(matrix, variant):
    if variant < 0:
        return emb_for(matrix)
    if variant < 10:
        return emb_for2(matrix, variant)
    if variant < 13:
        return emb_for3(matrix, variant)
    return emb_for4(matrix, variant)


def import_graph_job(matrix):
    """Modules m0..m2 importing each other as the matrix says (a diagonal entry is a module importing itself);
    m0 is compiled.  'Import dependency cycle' must be reported iff a cycle is reachable from m0, and an acyclic
    import graph must be accepted."""
    n = len(matrix)
    texts = {}
    for i in range(n):
        lines = ['import "m%d.emb" as mm%d' % (j, j) for j in range(n) if matrix[i][j]]
        lines += ['[$default byte_order: "LittleEndian"]', "struct Ss%d:" % i, "  0 [+1]  UInt  x"]
        texts["m%d.emb" % i] = "\n".join(lines) + "\n"
    from compiler.front_end import emboss_front_end
    real = emboss_front_end._find_in_dirs_and_read([common.REPO])

    def rd(name):
        return (texts[name], None) if name in texts else real(name)

    reach = {0}
    work = [0]
    while work:
        i = work.pop()
        for j in range(n):
            if matrix[i][j] and j not in reach:
                reach.add(j)
                work.append(j)
    sub = [[matrix[i][j] if (i in reach and j in reach) else 0 for j in range(n)] for i in range(n)]
    want = py_cyclic(sub)
    text = "\n".join("# %s\n%s" % (k, v) for k, v in sorted(texts.items()))
    try:
        ir, _, errors = glue.parse_emboss_file("m0.emb", rd)
    except RecursionError:
        return {"matrix": matrix, "variant": "imports", "text": text, "problem": "front end exceeded the recursion limit on an import graph (missed cycle)"}
    except Exception as e:  # pylint: disable=broad-except
        return {"matrix": matrix, "variant": "imports", "text": text, "problem": "front end crashed on an import graph: %s: %s" % (type(e).__name__, str(e)[:100])}
    cyc = any("Import dependency cycle" in m.message for grp in (errors or []) for m in grp)
    if cyc != want or (want and not errors):
        return {"matrix": matrix, "variant": "imports", "text": text, "problem": "import cycle error reported=%s, import graph reachable from m0 cyclic=%s" % (cyc, want)}
    if not want and errors:
        return {"matrix": matrix, "variant": "imports", "text": text, "problem": "acyclic import graph rejected: %s" % errors[0][0].message[:80]}
    return None


def py_cyclic(matrix):
    n = len(matrix)
    R = [row[:] for row in matrix]
    for k in range(n):
        for i in range(n):
            for j in range(n):
                R[i][j] = R[i][j] or (R[i][k] and R[k][j])
    return any(R[i][i] for i in range(n))


def front_end_on(matrix, variant=-1):
    text = render(matrix, variant)
    from compiler.front_end import emboss_front_end
    real = emboss_front_end._find_in_dirs_and_read([common.REPO])

    def rd(name):
        return (text, None) if name == "graph.emb" else real(name)

    ir, _, errors = glue.parse_emboss_file("graph.emb", rd)
    cyc = any("Dependency cycle" in m.message for grp in (errors or []) for m in grp)
    order = None
    if ir is not None and (variant < 10 or variant >= 13):
        st = [t for t in ir.module[0].type if t.name.name.text == "Graph"][0].structure
        names = [st.field[i].name.name.text for i in st.fields_in_dependency_order]
        order = [x for x in names if x.startswith("f")]
    return cyc, bool(errors), order, text


def _fe_job(job):
    matrix, variant = job if isinstance(job, tuple) else (job, -1)
    r = _fe_job1(matrix, variant)
    if r is not None:
        r["variant"] = variant
        r["text"] = render(matrix, variant)
    return r


def _fe_job1(matrix, variant):
    try:
        cyc, rejected, order, text = front_end_on(matrix, variant)
    except RecursionError:
        return {"matrix": matrix, "problem": "front end exceeded the recursion limit (missed cycle)"}
    except Exception as e:  # pylint: disable=broad-except
        return {"matrix": matrix, "problem": "front end crashed: %s: %s" % (type(e).__name__, str(e)[:100])}
    want = py_cyclic(matrix)
    if cyc != want or (want and not rejected):
        return {"matrix": matrix, "problem": "cycle error reported=%s, graph cyclic=%s" % (cyc, want)}
    if not want:
        if rejected:
            return {"matrix": matrix, "problem": "acyclic graph rejected"}
        if order is None:
            return None  # nodes in several types: no single structure whose field order could be inspected
        n = len(matrix)
        pos = {name: k for k, name in enumerate(order)}
        # a static reference `Graph.fJ` denotes the constant, not a field of the instance being read: it takes
        # part in the cycle rule, not in the field order (the order is defined over local field references)
        local = lambda i, j: not (variant >= 13 and (i + j + variant) % 2 == 0)
        for i in range(n):
            for j in range(n):
                if matrix[i][j] and local(i, j) and pos["f%d" % j] > pos["f%d" % i]:
                    return {"matrix": matrix, "problem": "f%d is ordered before its dependency f%d: %s" % (i, j, order)}
        if all(not (matrix[i][j] and local(i, j)) for i in range(n) for j in range(n) if j >= i) and order != ["f%d" % i for i in range(n)]:
            return {"matrix": matrix, "problem": "source order is valid but was changed to %s" % order}
    return None


def replay(c):
    m = c["matrix"]
    if m is None:
        return False, "no matrix"
    n = len(m)
    if c["kind"] == "cycles":
        graph = {node(i): {node(j) for j in range(n) if m[i][j]} for i in range(n)}
        try:
            comps = dependency_checker._find_cycles(graph)
        except Exception as e:  # pylint: disable=broad-except
            return True, "real _find_cycles raised %r" % e
        R = [row[:] for row in m]
        for k in range(n):
            for i in range(n):
                for j in range(n):
                    R[i][j] = R[i][j] or (R[i][k] and R[k][j])
        want = set()
        for i in range(n):
            if R[i][i]:
                want.add(frozenset(node(j) for j in range(n) if (R[i][j] and R[j][i]) or j == i))
        return set(comps) != want, "real _find_cycles returned %s, strongly connected components with a cycle are %s" % (
            sorted(sorted(x[2] for x in comp) for comp in comps), sorted(sorted(x[2] for x in comp) for comp in want))
    if c.get("variant") == "imports":
        r = import_graph_job(m)
        return (r is not None), (r["problem"] + " on\n" + r["text"]) if r else "import graph handled as documented on replay"
    r = _fe_job((m, c.get("variant", -1))) if c.get("variant") is not None else _fe_job(m)
    if r is not None:
        return True, r["problem"] + " on\n" + r.get("text", emb_for(m))
    # unit-level replay with plain sets
    fields = [ir_data.Field(name=ir_data.NameDefinition(name=ir_data.Word(text="f%d" % i),
                                                        canonical_name=ir_data.CanonicalName(module_file="m.emb", object_path=["S", "f%d" % i])))
              for i in range(n)]
    for i in range(n):
        if (c.get("virtual_mask", 0) >> i) & 1:
            fields[i].read_transform = ir_data.Expression(constant=ir_data.NumericConstant(value="1"))
        else:
            fields[i].location = ir_data.FieldLocation()
    structure = ir_data.Structure(field=fields)
    deps = {node(i): {node(j) for j in range(n) if m[i][j]} for i in range(n)}
    try:
        dependency_checker._find_dependency_ordering_for_fields_in_structure(structure, ir_data.TypeDefinition(structure=structure), deps)
    except Exception as e:  # pylint: disable=broad-except
        return True, "real ordering function raised %s" % type(e).__name__
    order = list(structure.fields_in_dependency_order)
    pos = {f: k for k, f in enumerate(order)}
    bad = sorted(order) != list(range(n)) or any(m[i][j] and pos[j] >= pos[i] for i in range(n) for j in range(n))
    ident = all(not m[i][j] for i in range(n) for j in range(n) if j >= i)
    return bad or (ident and order != list(range(n))), "real ordering %s" % order


def _job(j):
    kind, n = j
    try:
        return run_cycles(n) if kind == "cycles" else run_ordering(n)
    except Exception as e:  # pylint: disable=broad-except
        return {"error": "".join(traceback.format_exception(type(e), e, e.__traceback__))[-1200:], "n": n, "kind": kind}


def main(tier):
    import random

    rep = common.Report("C15", tier, "proof")
    jobs = [("cycles", 1), ("cycles", 2), ("cycles", 3), ("ordering", 2), ("ordering", 3), ("ordering", 4)]
    if tier == "thorough":
        jobs += [("cycles", 4), ("ordering", 5)]
    with multiprocessing.Pool(min(len(jobs), common.ncpu())) as pool:
        results = pool.map(_job, jobs)
        # translator validation through the whole front end: every 3-node graph (quick: a seeded sample)
        mats = [[[(bits >> (i * 3 + j)) & 1 for j in range(3)] for i in range(3)] for bits in range(512)]
        fe = pool.map(_fe_job, [(m, v) for m in mats for v in (-1, 0, 1, 2, 10, 11, 12, 13, 14)], chunksize=8)
        fe += pool.map(import_graph_job, mats, chunksize=8)
    tot = {"paths": 0, "obligations": 0, "discharged": 0}
    cands = []
    detail = {}
    for r in results:
        if "error" in r:
            rep.harness_error("%s n=%s: %s" % (r["kind"], r["n"], r["error"]))
            continue
        for k in tot:
            tot[k] += r[k]
        if r["unknown"]:
            rep.inconclusive_item("n=%d: %d unknown/unfinished" % (r["n"], r["unknown"]))
        detail["%s" % {k: v for k, v in r.items() if k not in ("candidates",)}] = True
        cands += r["candidates"]
    seen = set()
    for c in cands:
        sig = (c["kind"], c["n"], c["what"][:30])
        if sig in seen:
            continue
        seen.add(sig)
        ok, observed = replay(c)
        if ok:
            rep.violation({"kind": c["kind"], "n": c["n"]}, "C15 %s on graph %s: %s; %s" % (c["kind"], c["matrix"], c["what"], observed), c)
        else:
            rep.harness_error("candidate did not reproduce: %r (%s)" % (c, observed))
    nfe = 0
    for r in fe:
        tot["obligations"] += 1
        if r is None:
            tot["discharged"] += 1
        else:
            nfe += 1
            if nfe <= 3:
                rep.violation({"kind": "front-end", "n": 3}, "C15 whole front end on graph %s: %s\n%s" % (r["matrix"], r["problem"], r["text"]),
                              {"kind": "ordering", "n": 3, "matrix": r["matrix"], "what": r["problem"], "variant": r["variant"]})
    rep.sample({"harness": "cycles", "n": 3, "symbolic": "3x3 Boolean edge matrix", "oracle": "returned components == SCCs i with reach(i,i) (Warshall closure)"})
    rep.sample({"harness": "ordering", "n": 4, "assumption": "acyclic (rank function)", "oracle": "permutation; every edge i->j has pos(j) < pos(i); identity whenever the identity is topological"})
    rep.sample(list(detail)[:6])
    rep.coverage.update({
        "obligations": tot["obligations"], "discharged": tot["discharged"],
        "checker_cmd": "python3-vt /verif/check C15 --tier %s" % tier,
        "trusted_base": ["z3", "vf/pysym.py", "oracles in vf/checks/c15.py"],
        "paths": tot["paths"], "front_end_graphs": len(fe),
        "functions_encoded": ["dependency_checker._find_cycles", "dependency_checker._find_dependency_ordering_for_fields_in_structure",
                              "whole front end (glue.parse_emboss_file) on rendered 3-node graphs: _find_dependencies, find_dependency_cycles, set_dependency_order"],
        "bounds": {"nodes": "cycles N <= %d, ordering N <= %d (all graphs)" % (4 if tier == "thorough" else 3, 5 if tier == "thorough" else 4),
                   "front end": "every 3-node graph, rendered nine ways (virtual fields; one structure with local and static `Graph.f` references mixed by parity; physical fields depending through locations, existence conditions and type-parameter arguments; constants spread over two or three types, one of them an enum value, referring to each other as Type.name)",
                   "imports": "every import graph on three modules (self-imports included), compiled from m0: cycle error iff a cycle is reachable from m0",
                   "outside": "graphs on more than three nodes through the front end; import graphs on more than three modules"},
    })
    return rep.finish()


def replay_file(path):
    with open(path) as f:
        obj = json.load(f)
    ok, observed = replay(obj["replay"])
    print("replay %s: %s -> %s" % (path, "REPRODUCED" if ok else "did not reproduce", observed))
    if ok:
        print("VIOLATION property=C15 replay=%s" % path)
    return 1 if ok else 0
