"""C19 -- enum names, values and C++ representation match the definition.
E2: the generated enum helpers (EnumIsKnown, TryToGetNameFromEnum,
TryToGetEnumFromName, the enumerators, the underlying type), compiled by
clang -O2 and executed symbolically, against the definition read from the IR:
for every value of the underlying type and every name string up to the
buffer bound.  E1: header_generator._cpp_integer_type_for_enum for all
maximum_bits."""

import json
import os
import shutil
import subprocess
import time
import traceback

import z3

from vf import common, cxx, ll2smt, front, structs, embz3, struct_check, pysym
from vf.llparse import NotEncoded
from compiler.util import ir_util
from compiler.back_end.cpp import header_generator

BV = z3.BitVecVal


def k_camel(shouty):
    """SHOUTY_CASE -> kCamelCase, written independently of name_conversion.py."""
    out = "k"
    for word in shouty.split("_"):
        if word:
            out += word[0].upper() + word[1:].lower()
    return out


def _enum_case_attr(attrs, want_default):
    for a in attrs:
        if a.name.text == "enum_case" and bool(a.is_default) == want_default:
            return [c.strip() for c in a.value.string_constant.text.split(",") if c.strip()]
    return None


def enum_info(tdef, ir, raw_ir=None):
    """The definition as the user wrote it.  enum_case scoping (value, then the
    enum's $default, then the module's $default, then SHOUTY_CASE) is resolved
    here from the IR *before* the back end propagates defaults."""
    ctx = embz3.Ctx(ir, None)
    values = [(v.name.name.text, ctx.const(v.value)) for v in tdef.enumeration.value]
    mb = ir_util.get_integer_attribute(tdef.attribute, "maximum_bits")
    signed = ir_util.get_boolean_attribute(tdef.attribute, "is_signed")
    raw_t = ir_util.find_object(tdef.name.canonical_name, raw_ir) if raw_ir is not None else tdef
    raw_mod = (raw_ir or ir).module[0]
    scope_default = _enum_case_attr(raw_t.attribute, True)
    # enclosing types' $default
    path = list(tdef.name.canonical_name.object_path)
    for depth in range(len(path) - 1, 0, -1):
        if scope_default is not None:
            break
        outer = ir_util.find_object((tdef.name.canonical_name.module_file,) + tuple(path[:depth]), raw_ir or ir)
        scope_default = _enum_case_attr(outer.attribute, True)
    if scope_default is None:
        scope_default = _enum_case_attr(raw_mod.attribute, True)
    cases = []
    for rv in raw_t.enumeration.value:
        cases.append(_enum_case_attr(rv.attribute, False) or scope_default or ["SHOUTY_CASE"])
    ubits = [b for b in (8, 16, 32, 64) if b >= mb][0]
    return {"values": values, "maximum_bits": mb, "signed": bool(signed), "cases": cases, "ubits": ubits}


def gen_driver(ir, header_name, raw_ir=None):
    module = ir.module[0]
    lines = ['#include <cstdint>', '#include <cstddef>', '#include <cstring>', '#include <type_traits>',
             '#include "%s"' % header_name, ""]
    enums = []
    for tdef in structs.all_enums(module):
        qn = structs.cpp_type_name(tdef, ir)
        eid = structs.ident(".".join(tdef.name.canonical_name.object_path))
        info = enum_info(tdef, ir, raw_ir)
        ut = "typename ::std::underlying_type<%s>::type" % qn
        lines.append('extern "C" bool %s__known(%s v) { return EnumIsKnown(static_cast<%s>(v)); }' % (eid, ut.replace("typename ", ""), qn))
        lines.append('extern "C" const char* %s__name(%s v) { return TryToGetNameFromEnum(static_cast<%s>(v)); }' % (eid, ut.replace("typename ", ""), qn))
        lines.append('extern "C" bool %s__from_ok(const char* s) { %s r{}; return TryToGetEnumFromName(s, &r); }' % (eid, qn))
        lines.append('extern "C" %s %s__from_val(const char* s) { %s r{}; if (!TryToGetEnumFromName(s, &r)) return 0; return static_cast<%s>(r); }'
                     % (ut.replace("typename ", ""), eid, qn, ut.replace("typename ", "")))
        lines.append('extern "C" unsigned %s__usize() { return sizeof(%s); }' % (eid, ut.replace("typename ", "")))
        lines.append('extern "C" bool %s__usigned() { return ::std::is_signed<%s>::value; }' % (eid, ut.replace("typename ", "")))
        k = 0
        enumerators = []
        for (name, val), value_cases in zip(info["values"], info["cases"]):
            for case in value_cases:
                spelling = name if case == "SHOUTY_CASE" else k_camel(name)
                lines.append('extern "C" %s %s__e%d() { return static_cast<%s>(%s::%s); }' % (
                    ut.replace("typename ", ""), eid, k, ut.replace("typename ", ""), qn, spelling))
                enumerators.append((k, spelling, val))
                k += 1
        enums.append((tdef, eid, qn, info, enumerators))
    return "\n".join(lines) + "\n", enums


def string_addresses(ex):
    """content -> address for the module's NUL-terminated string constants."""
    out = {}
    for name, g in ex.m.globals.items():
        if name in ex.global_addr and g.constant:
            data = ex.global_bytes(name)
            if data and data[-1] == 0 and 0 not in data[:-1]:
                out.setdefault(bytes(data[:-1]).decode("latin1"), ex.global_addr[name])
    return out


def check_module(job):
    emb, import_dirs, opts = job
    res = struct_check.ModResult(emb)
    z3.set_param("smt.random_seed", 0)
    d = common.scratch_dir("verif-e19-")
    try:
        try:
            ir = front.compile_module(emb, import_dirs, d)
        except front.FrontEndError as e:
            if "Unable to read file" in str(e):
                res.skipped.append((emb, "imports a file that is not in the tree"))
            else:
                res.errors.append("front end rejected corpus module %s: %s" % (emb, str(e)[:500]))
            return res
        raw_ir = front.parse(emb, import_dirs)
        src_text, enums = gen_driver(ir, emb + ".h", raw_ir)
        if not enums:
            return res
        src = os.path.join(d, "drv19.cc")
        with open(src, "w") as f:
            f.write(src_text)
        try:
            text = cxx.compile_ir(src, os.path.join(d, "drv19.ll"), cxx.O2_FLAGS, includes=[d])
        except cxx.CompileError as e:
            # an enumerator spelling the oracle expects does not exist, or the header is ill-formed
            res.candidates.append({"module": emb, "import_dirs": import_dirs, "enum": "*", "what": "driver naming every enumerator does not compile",
                                   "kind": "compile", "detail": str(e)[-600:]})
            return res
        mod = ll2smt.parse(text)
        ex = ll2smt.Executor(mod, unroll=4, check_flags=False)
        mem = ex.initial_memory(cxx.fresh_memory(), strings=True)
        straddr = string_addresses(ex)
        for tdef, eid, qn, info, enumerators in enums:
            res.structures += 1
            ename = ".".join(tdef.name.canonical_name.object_path)
            ub = info["ubits"]
            v = z3.BitVec("v", ub)
            wide = (z3.SignExt(72 - ub, v) if info["signed"] else z3.ZeroExt(72 - ub, v))
            declared = info["values"]

            def q(what, formula, extra=None):
                st, m = struct_check._check(res, [], z3.Not(formula))
                res.compared += 1
                if st == "unsat":
                    res.unsat += 1
                elif st == "sat":
                    c = {"module": emb, "import_dirs": import_dirs, "enum": ename, "eid": eid, "what": "%s %s" % (ename, what), "kind": what.split()[0]}
                    if extra:
                        c.update(extra(m))
                    res.candidates.append(c)
                else:
                    res.unknown.append("%s %s: solver %s" % (ename, what, st))

            try:
                # underlying type
                r1, r2 = ex.run(eid + "__usize", [], mem, []), ex.run(eid + "__usigned", [], mem, [])
                q("underlying-type size is the smallest of 8/16/32/64 holding maximum_bits=%d" % info["maximum_bits"],
                  r1.ret == BV(ub // 8, r1.ret.size()))
                q("underlying-type signedness", r2.ret == z3.BoolVal(info["signed"]))
                # enumerators
                for k, spelling, val in enumerators:
                    r = ex.run("%s__e%d" % (eid, k), [], mem, [])
                    q("enumerator %s has the declared value %d" % (spelling, val), r.ret == BV(val, ub))
                # EnumIsKnown for every value of the underlying type
                r = ex.run(eid + "__known", [v], mem, [])
                known = z3.Or(*[wide == BV(val, 72) for _, val in declared])
                q("EnumIsKnown(v) iff v is a declared value", r.ret == known,
                  lambda m: {"v": m.eval(v, model_completion=True).as_long()})
                # TryToGetNameFromEnum: first declared name, else null
                r = ex.run(eid + "__name", [v], mem, [])
                expect = BV(0, 64)
                first_name = {}
                for name, val in declared:
                    first_name.setdefault(val, name)
                # only the first declared name of each value can be returned, so only those strings must exist
                for val, name in reversed(list(first_name.items())):
                    if name not in straddr:
                        raise NotEncoded("string constant %r not found in the module" % name)
                    expect = z3.If(wide == BV(val, 72), BV(straddr[name], 64), expect)
                q("TryToGetNameFromEnum(v) is the first declared name with that value, else null", r.ret == expect,
                  lambda m: {"v": m.eval(v, model_completion=True).as_long()})
                # TryToGetEnumFromName over every NUL-terminated string in a buffer of cap bytes
                cap = max(len(n) for n, _ in declared) + 2
                ex.MAX_STR = cap
                sbuf = cxx.SymBuf("name", cap)
                pre = list(sbuf.pre) + [sbuf.n == BV(cap, 64), sbuf.byte(mem, cap - 1) == BV(0, 8)]
                ro = ex.run(eid + "__from_ok", [sbuf.B], mem, [sbuf.region])
                rv = ex.run(eid + "__from_val", [sbuf.B], mem, [sbuf.region])

                def is_name(n):
                    bs = n.encode("latin1") + b"\0"
                    return z3.And(*[sbuf.byte(mem, i) == BV(b, 8) for i, b in enumerate(bs)])

                firsts = {}
                for n, val in declared:
                    firsts.setdefault(n, val)
                ok_spec = z3.Or(*[is_name(n) for n in firsts])
                val_spec = BV(0, ub)
                for n, val in firsts.items():
                    val_spec = z3.If(is_name(n), BV(val, ub), val_spec)

                def name_cex(m):
                    data = [m.eval(sbuf.byte(mem, i), model_completion=True).as_long() for i in range(cap)]
                    return {"name_bytes": data}

                for what, f in (("TryToGetEnumFromName(s) succeeds exactly for the declared names", ro.ret == ok_spec),
                                ("TryToGetEnumFromName(s) yields the named value", rv.ret == val_spec)):
                    st, m = struct_check._check(res, pre, z3.Not(f))
                    res.compared += 1
                    if st == "unsat":
                        res.unsat += 1
                    elif st == "sat":
                        c = {"module": emb, "import_dirs": import_dirs, "enum": ename, "eid": eid, "what": "%s %s" % (ename, what), "kind": "TryToGetEnumFromName"}
                        c.update(name_cex(m))
                        res.candidates.append(c)
                    else:
                        res.unknown.append("%s %s: solver %s" % (ename, what, st))
                for o in ro.obligations + rv.obligations:
                    if o.kind == "oob-read":
                        st, _ = struct_check._check(res, pre, o.violated)
                        if st != "unsat":
                            res.unknown.append("%s name lookup reads past the %d-byte name buffer (strcmp bound)" % (ename, cap))
                st, _ = struct_check._check(res, pre, ok_spec)
                if st == "sat":
                    res.witnesses += 1
                if len(res.samples) < 2:
                    res.samples.append({"module": emb, "enum": ename, "underlying_bits": ub, "signed": info["signed"],
                                        "declared": declared[:6], "name_buffer_bytes": cap})
            except NotEncoded as ne:
                res.not_encoded.append("%s: %s" % (ename, ne))
            except embz3.Unsupported as u:
                res.skipped.append((ename, str(u)))
    except Exception as x:  # pylint: disable=broad-except
        res.errors.append("%s: %s" % (emb, "".join(traceback.format_exception(type(x), x, x.__traceback__))[-1500:]))
    finally:
        shutil.rmtree(d, ignore_errors=True)
    return res


REPLAY_MAIN = r"""
#include <cstdio>
#include <cstdlib>
#include <cstring>
int main() {
  long long v; unsigned n;
  if (scanf("%lld %u", &v, &n) != 2) return 2;
  char* s = static_cast<char*>(malloc(n ? n : 1));
  for (unsigned i = 0; i < n; ++i) { unsigned b; if (scanf("%x", &b) != 1) return 2; s[i] = (char)b; }
  printf("known %d\n", (int)KNOWN(v));
  const char* nm = NAME(v);
  printf("name %s\n", nm ? nm : "(null)");
  if (n) { printf("from_ok %d\n", (int)FROM_OK(s)); printf("from_val %lld\n", (long long)FROM_VAL(s)); }
  printf("usize %u usigned %d\n", USIZE(), (int)USIGNED());
  free(s);
  return 0;
}
"""


def replay(c):
    if c.get("kind") == "compile":
        return True, "the driver that names every enumerator by its documented spelling does not compile: %s" % c["detail"][-300:]
    d = common.scratch_dir("verif-r19-")
    try:
        ir = front.compile_module(c["module"], c["import_dirs"], d)
        src_text, enums = gen_driver(ir, c["module"] + ".h", front.parse(c["module"], c["import_dirs"]))
        with open(os.path.join(d, "drv19.cc"), "w") as f:
            f.write(src_text)
        eid = c["eid"]
        info = [e for e in enums if e[1] == eid][0][3]
        defs = "".join("#define %s %s__%s\n" % (a, eid, b) for a, b in (
            ("KNOWN", "known"), ("NAME", "name"), ("FROM_OK", "from_ok"), ("FROM_VAL", "from_val"), ("USIZE", "usize"), ("USIGNED", "usigned")))
        main = os.path.join(d, "main.cc")
        with open(main, "w") as f:
            f.write('#include "drv19.cc"\n' + defs + REPLAY_MAIN)
        exe = os.path.join(d, "replay")
        cxx.compile_native(main, exe, includes=[d])
        v = c.get("v", 0)
        ub = info["ubits"]
        if info["signed"] and v >> (ub - 1):
            v -= 1 << ub
        nb = c.get("name_bytes", [])
        stdin = "%d %d\n%s\n" % (v if v < (1 << 63) else v - (1 << 64), len(nb), " ".join("%x" % b for b in nb))
        rc, out, err = cxx.run_native(exe, stdin)
        if rc != 0:
            return True, "native run crashed: %s" % (err or out)[-300:]
        obs = dict(l.split(" ", 1) for l in out.strip().splitlines())
        declared = info["values"]
        vv = c.get("v", 0)
        if info["signed"] and vv >> (ub - 1):
            vv -= 1 << ub
        known = any(val == vv for _, val in declared)
        first = next((n for n, val in declared if val == vv), None)
        problems = []
        if int(obs["known"]) != int(known):
            problems.append("EnumIsKnown(%d)=%s, declared: %s" % (vv, obs["known"], known))
        if obs["name"] != (first or "(null)"):
            problems.append("TryToGetNameFromEnum(%d)=%s, first declared name %s" % (vv, obs["name"], first))
        if nb:
            s = bytes(nb).split(b"\0")[0].decode("latin1")
            firsts = {}
            for n, val in declared:
                firsts.setdefault(n, val)
            if int(obs["from_ok"]) != int(s in firsts):
                problems.append("TryToGetEnumFromName(%r) returned %s" % (s, obs["from_ok"]))
            elif s in firsts and int(obs["from_val"]) != firsts[s] and (int(obs["from_val"]) % (1 << ub)) != (firsts[s] % (1 << ub)):
                problems.append("TryToGetEnumFromName(%r) -> %s, declared %d" % (s, obs["from_val"], firsts[s]))
        us, usg = obs["usize"].split()[0], obs["usize"].split()[2]
        if int(us) * 8 != ub or int(usg) != int(info["signed"]):
            problems.append("underlying type %s bytes signed=%s, expected %d bits signed=%s" % (us, usg, ub, info["signed"]))
        return bool(problems), "; ".join(problems) or "native run agrees with the definition"
    finally:
        shutil.rmtree(d, ignore_errors=True)


def type_choice(rep):
    """E1: header_generator._cpp_integer_type_for_enum for every maximum_bits and signedness."""
    ob = dis = 0
    for signed in (False, True):
        holder = {}

        def body(c):
            mb = z3.Int("maximum_bits")
            c.assume(z3.And(mb >= 1, mb <= 64))
            holder["mb"] = mb
            return header_generator._cpp_integer_type_for_enum(pysym.SymInt(mb), signed)

        def on_path(pr):
            nonlocal ob, dis
            c = pr.ctx
            mb = holder["mb"]
            ob += 1
            if pr.kind == "raise":
                m = c.witness()
                if m is not None:
                    rep.violation({"part": "type_choice"}, "_cpp_integer_type_for_enum raised %r for maximum_bits=%d" % (
                        pr.exc, m.eval(mb, model_completion=True).as_long()), {"maximum_bits": m.eval(mb, model_completion=True).as_long()})
                return
            t = pr.value
            sizes = {"::std::%sint%d_t" % ("" if signed else "u", b): b for b in (8, 16, 32, 64)}
            b = sizes.get(t)
            if b is None:
                rep.violation({"part": "type_choice"}, "unexpected type %r" % t, {"type": t})
                return
            lower = {8: 0, 16: 8, 32: 16, 64: 32}[b]
            r, m = c.prove(z3.And(mb <= b, mb > lower))
            if r == "unsat":
                dis += 1
            elif r == "sat":
                k = m.eval(mb, model_completion=True).as_long()
                real = header_generator._cpp_integer_type_for_enum(k, signed)
                if real == t:
                    rep.violation({"part": "type_choice"}, "_cpp_integer_type_for_enum(%d, %s) = %s is not the smallest sufficient type" % (k, signed, t),
                                  {"maximum_bits": k, "signed": signed, "type": t})
                else:
                    rep.harness_error("type choice candidate did not reproduce")

        with pysym.instrument(header_generator):
            pysym.explore(body, on_path)
    return ob, dis


def main(tier):
    rep = common.Report("C19", tier, "model_checking")
    mods = []
    for emb, dirs in struct_check.corpus():
        if tier == "quick" and emb.startswith("gen_") and not struct_check.in_quick_corpus(emb):
            continue  # generated modules beyond the first four: thorough tier
        # only modules that define an enum (cheap textual pre-filter; the front end still decides)
        for d in dirs:
            pth = os.path.join(d, emb)
            if os.path.exists(pth):
                with open(pth) as f:
                    if any(line.lstrip().startswith("enum ") for line in f):
                        mods.append((emb, dirs))
                break
    results = struct_check.run_corpus(check_module, {}, mods)
    tot = {"structures": 0, "compared": 0, "queries": 0, "unsat": 0, "witnesses": 0}
    not_encoded = []
    seen = {}
    replayed = 0
    for r in results:
        for k in tot:
            tot[k] += getattr(r, k)
        not_encoded += ["%s: %s" % (r.module, x) for x in r.not_encoded]
        for e in r.errors[:3]:
            rep.harness_error(e)
        for u in r.unknown[:10]:
            rep.inconclusive_item("%s: %s" % (r.module, u))
        for s in r.samples[:1]:
            rep.sample(s, cap=8)
        for c in r.candidates:
            key = {"module": c["module"], "enum": c["enum"], "kind": c["kind"]}
            sig = json.dumps(key, sort_keys=True)
            seen[sig] = seen.get(sig, 0) + 1
            if seen[sig] > 1:
                continue
            per_kind = "kind:%s" % c["kind"]
            seen[per_kind] = seen.get(per_kind, 0) + 1
            if seen[per_kind] > 10:
                continue  # a template-level defect shows in every enum; ten native replays per obligation kind
            ok, observed = replay(c)
            replayed += 1
            if not ok:
                rep.harness_error("candidate did not reproduce natively: %s (%s)" % (c["what"], observed))
                continue
            rep.violation(key, "%s: %s" % (c["what"], observed), c)
    ob, dis = type_choice(rep)
    if tot["witnesses"] == 0:
        rep.harness_error("no enum reached the name-lookup witness (vacuous)")
    rep.coverage.update({
        "states": tot["structures"], "transitions": tot["queries"] + ob, "traces_validated_against_impl": replayed,
        "exhaustive": True, "enums": tot["structures"], "obligations_compared": tot["compared"], "unsat": tot["unsat"],
        "type_choice_obligations": ob, "type_choice_discharged": dis,
        "not_encoded_count": len(not_encoded), "not_encoded": not_encoded[:10],
        "bounds": {"values": "every value of the underlying type", "names": "every NUL-terminated string in a buffer of (longest declared name + 2) bytes",
                   "enums": "all enums of the corpus incl. /verif/corpus/enums_edge.emb",
                   "outside": "operator<< (iostream); enum fields accepting any in-range value are C02/C03"},
        "explanation": "states = enums; transitions = solver queries (each over all values or all name strings)",
    })
    rep.assumptions += ["strcmp modelled from its C contract over the name buffer", "clang 14 -O2 IR"]
    if not_encoded:
        rep.inconclusive_item("%d enums not encoded (first: %s)" % (len(not_encoded), not_encoded[0]))
    return rep.finish()


def replay_file(path):
    with open(path) as f:
        obj = json.load(f)
    ok, observed = replay(obj["replay"])
    print("replay %s: %s -> %s" % (path, "REPRODUCED" if ok else "did not reproduce", observed))
    if ok:
        print("VIOLATION property=C19 replay=%s" % path)
    return 1 if ok else 0
