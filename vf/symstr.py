"""SymStr: a string of concrete length whose characters are z3 Strings of
length 1 (concrete characters are StringVal).  Implements what the Emboss
tokenizer does with its input; decisions fork through pysym."""

import z3

from vf import pysym, rx

# string constants of the module under test (set by the harness): a symbolic string can be hashed -- looked up
# in a set/dict -- by deciding, with forks, which of these constants it equals
KNOWN_CONSTANTS = []


_CHAR_VALS = {}


def _chars_of(s):
    if isinstance(s, SymStr):
        return s.chars
    out = []
    for c in s:
        v = _CHAR_VALS.get(c)
        if v is None:
            v = _CHAR_VALS[c] = z3.IntVal(ord(c))
        out.append(v)
    return out


class SymStr:
    def __init__(self, chars):
        self.chars = list(chars)

    @staticmethod
    def fresh(name, n):
        return SymStr([z3.Int("%s_%d" % (name, i)) for i in range(n)])

    def __len__(self):
        return len(self.chars)

    def __getitem__(self, k):
        if isinstance(k, slice):
            return SymStr(self.chars[k])
        return SymStr([self.chars[k]])

    def __add__(self, other):
        return SymStr(self.chars + _chars_of(other))

    def __radd__(self, other):
        return SymStr(_chars_of(other) + self.chars)

    def _eq_cond(self, other):
        oc = _chars_of(other)
        if len(oc) != len(self.chars):
            return z3.BoolVal(False)
        if not oc:
            return z3.BoolVal(True)
        return z3.And(*[a == b for a, b in zip(self.chars, oc)])

    def __eq__(self, other):
        if not isinstance(other, (SymStr, str)):
            return False
        return pysym.ctx().fork(self._eq_cond(other))

    def __ne__(self, other):
        return not self.__eq__(other)

    def __hash__(self):
        # set/dict lookup: if the string equals one of the module's constants (a fork per candidate of the same
        # length) it hashes like that constant; otherwise like a value no container of those constants holds
        for k in KNOWN_CONSTANTS:
            if len(k) == len(self.chars) and pysym.ctx().fork(self._eq_cond(k)):
                return hash(k)
        return hash(("symbolic string equal to no known constant", len(self.chars)))

    def startswith(self, prefix):
        pc = _chars_of(prefix)
        if len(pc) > len(self.chars):
            return False
        if not pc:
            return True
        return pysym.ctx().fork(z3.And(*[a == b for a, b in zip(self.chars, pc)]))

    @staticmethod
    def _strip_cond(chars, ch):
        if chars is None:
            return rx.is_space(ch)
        if isinstance(chars, SymStr):
            raise pysym.HarnessGap("strip() with a symbolic character set")
        return z3.Or(*[ch == ord(x) for x in chars]) if chars else z3.BoolVal(False)

    def lstrip(self, chars=None):
        c = pysym.ctx()
        i = 0
        while i < len(self.chars) and c.fork(self._strip_cond(chars, self.chars[i])):
            i += 1
        return SymStr(self.chars[i:])

    def rstrip(self, chars=None):
        c = pysym.ctx()
        i = len(self.chars)
        while i > 0 and c.fork(self._strip_cond(chars, self.chars[i - 1])):
            i -= 1
        return SymStr(self.chars[:i])

    def strip(self, chars=None):
        return self.lstrip(chars).rstrip(chars)

    def endswith(self, suffix):
        sc = _chars_of(suffix)
        if len(sc) > len(self.chars):
            return False
        if not sc:
            return True
        return pysym.ctx().fork(z3.And(*[a == b for a, b in zip(self.chars[len(self.chars) - len(sc):], sc)]))

    def isspace(self):
        if not self.chars:
            return False
        return pysym.ctx().fork(z3.And(*[rx.is_space(ch) for ch in self.chars]))

    def splitlines(self):
        raise pysym.HarnessGap("splitlines() on a symbolic line")

    def concrete(self, model):
        return "".join(chr(model.eval(ch, model_completion=True).as_long()) for ch in self.chars)

    def __repr__(self):
        return "SymStr(%d)" % len(self.chars)


def _unescape_z3(s):
    # z3 prints non-printable characters as \u{XX}
    import re
    return re.sub(r"\\u\{([0-9a-fA-F]+)\}", lambda m: chr(int(m.group(1), 16)), s)


class SymText:
    """A text whose lines are given (the harness fixes the line structure)."""

    def __init__(self, lines):
        self.lines = lines

    def rstrip(self):
        c = pysym.ctx()
        i = len(self.chars)
        while i > 0 and c.fork(rx.is_space(self.chars[i - 1])):
            i -= 1
        return SymStr(self.chars[:i])

    def strip(self):
        return self.lstrip().rstrip()

    def endswith(self, suffix):
        sc = _chars_of(suffix)
        if len(sc) > len(self.chars):
            return False
        if not sc:
            return True
        return pysym.ctx().fork(z3.And(*[a == b for a, b in zip(self.chars[len(self.chars) - len(sc):], sc)]))

    def isspace(self):
        if not self.chars:
            return False
        return pysym.ctx().fork(z3.And(*[rx.is_space(ch) for ch in self.chars]))

    def splitlines(self):
        return list(self.lines)
