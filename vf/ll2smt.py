"""E2 -- ll2smt: LLVM IR (clang 14) -> z3 bit-vector / array terms.

Each function is executed symbolically over its control-flow graph with
state merging: loops are unrolled up to a bound into a DAG of (block,
iteration-context) nodes, nodes are processed in topological order, the state
of a node (guard, SSA environment, memory) is the guarded merge of its
incoming edges.  The result is one term per function result plus a list of
*obligations* (memory safety of every access, unreachability of every trap /
assert site, no-overflow of every flagged operation, llvm.assume conditions),
each a z3 Bool `violated` that callers ask the solver about.

Memory: flat 64-bit addresses; Array(BV64 -> BV8); little-endian.
"""

import time

import z3

from vf import llparse
from vf.llparse import (NotEncoded, IntTy, PtrTy, FloatTy, VoidTy, ArrayTy, StructTy, Const, Local,
                        GlobalRef, ConstExpr, Undef, Aggregate, BytesConst, size_align, struct_offset)

BV64 = z3.BitVecSort(64)
BV8 = z3.BitVecSort(8)

GLOBAL_BASE = 0x0000_6000_0000_0000
STACK_BASE = 0x0000_7000_0000_0000


def bv(v, bits):
    return z3.BitVecVal(v, bits)


class Obligation:
    __slots__ = ("kind", "site", "violated", "detail")

    def __init__(self, kind, site, violated, detail=""):
        self.kind, self.site, self.violated, self.detail = kind, site, violated, detail

    def __repr__(self):
        return "<%s @%s %s>" % (self.kind, self.site, self.detail)


class Region:
    """A live object: [base, base+size) with z3 terms; writable flag."""

    def __init__(self, name, base, size, writable=True, valid=None):
        self.name, self.base, self.size, self.writable = name, base, size, writable
        self.valid = valid if valid is not None else z3.BoolVal(True)

    def contains(self, addr, nbytes):
        """addr..addr+nbytes inside the region (no wrap: size <= 2^62 assumed)."""
        off = addr - self.base
        nb = nbytes if z3.is_bv(nbytes) else bv(nbytes, 64)
        return z3.And(self.valid, z3.ULE(off, self.size), z3.ULE(nb, self.size - off))


class State:
    __slots__ = ("guard", "env", "mem")

    def __init__(self, guard, env, mem):
        self.guard, self.env, self.mem = guard, env, mem


class Result:
    def __init__(self):
        self.ret = None
        self.ret_guard = None
        self.mem = None
        self.obligations = []
        self.unwind_exceeded = z3.BoolVal(False)
        self.reaches_unreachable = z3.BoolVal(False)
        self.nodes = 0
        self.instrs = 0


def _simp(t):
    return z3.simplify(t)


def ite(c, a, b):
    if z3.is_true(c):
        return a
    if z3.is_false(c):
        return b
    if a is b or (hasattr(a, "eq") and a.eq(b)):
        return a
    if isinstance(a, tuple):
        return tuple(ite(c, x, y) for x, y in zip(a, b))
    return z3.If(c, a, b)


class Executor:
    def __init__(self, module, unroll=4, check_flags=True, max_nodes=4000, call_depth=40):
        self.m = module
        self.unroll = unroll
        self.prune = None  # list of precondition formulas: enables solver-based pruning of loop edges
        self.prune_ms = 2000
        self.allow_unmodelled = False  # True: calls to unmodelled externals become 'unmodelled-call' obligations
        self.deadline = None  # wall-clock limit for symbolic execution (time.time() value)
        self.prune_all = False  # also prune (and resolve) ordinary branches, not only loop edges
        self.prune_queries = 0
        self.pruned_edges = 0
        self.check_flags = check_flags
        self.max_nodes = max_nodes
        self.call_depth = call_depth
        self.global_addr = {}
        self.global_regions = []
        self._layout_globals()
        self._fresh = 0
        self._cfg_cache = {}

    # ------------------------------------------------------------------
    def _layout_globals(self):
        addr = GLOBAL_BASE
        for name, g in self.m.globals.items():
            if g.ty is None:
                continue
            try:
                size, al = size_align(g.ty)
            except NotEncoded:
                continue
            al = max(al, g.align, 16)
            addr = (addr + al - 1) // al * al
            self.global_addr[name] = addr
            self.global_regions.append(Region("@" + name, bv(addr, 64), bv(size, 64), writable=not g.constant))
            addr += size + 16

    def global_bytes(self, name):
        """Concrete initial bytes of a constant global (or None)."""
        g = self.m.globals.get(name)
        if g is None or g.init is None:
            return None
        try:
            return self._const_bytes(g.init, g.ty)
        except NotEncoded:
            return None

    def _const_bytes(self, v, ty):
        size, _ = size_align(ty)
        if isinstance(v, BytesConst):
            return list(v.data) + [0] * (size - len(v.data))
        if isinstance(v, Const):
            if v.value == 0:
                return [0] * size
            return list((v.value % (1 << (8 * size))).to_bytes(size, "little"))
        if isinstance(v, Aggregate):
            out = []
            if isinstance(ty, ArrayTy):
                for e in v.elems:
                    out += self._const_bytes(e, ty.elem)
                return out
            if isinstance(ty, StructTy):
                for i, e in enumerate(v.elems):
                    off = struct_offset(ty, i)
                    out += [0] * (off - len(out))
                    out += self._const_bytes(e, ty.fields[i])
                return out + [0] * (size - len(out))
        if isinstance(v, (GlobalRef, ConstExpr)):
            val = self._const_value(v)
            if z3.is_bv_value(val):
                return list(val.as_long().to_bytes(size, "little"))
        raise NotEncoded("constant initializer")

    def initial_memory(self, mem, strings=False):
        """Stores the bytes of small constant globals (lookup tables; with
        strings=True also string constants) into `mem`."""
        for name, g in self.m.globals.items():
            if name not in self.global_addr or not g.constant:
                continue
            if isinstance(g.init, BytesConst) and not strings:
                continue
            data = self.global_bytes(name)
            if data is None or len(data) > 4096:
                continue
            if isinstance(g.init, BytesConst) and strings is not True and len(data) > int(strings):
                continue  # strings=N: only string constants of at most N bytes (digit tables, not messages)
            base = self.global_addr[name]
            for i, b in enumerate(data):
                mem = z3.Store(mem, bv(base + i, 64), bv(b, 8))
        return mem

    def fresh(self, bits, hint="undef"):
        self._fresh += 1
        if bits == 1:
            return z3.Bool("%s!%d" % (hint, self._fresh))
        return z3.BitVec("%s!%d" % (hint, self._fresh), bits)

    # ------------------------------------------------------------------
    # constants / operands
    # ------------------------------------------------------------------
    def _bits(self, ty):
        if isinstance(ty, (IntTy, PtrTy, FloatTy)):
            return ty.bits
        raise NotEncoded("value of type %r" % (ty,))

    def _const_value(self, v):
        if isinstance(v, Const):
            b = self._bits(v.ty)
            if b == 1:
                return z3.BoolVal(bool(v.value & 1))
            return bv(v.value, b)
        if isinstance(v, GlobalRef):
            if v.name in self.global_addr:
                return bv(self.global_addr[v.name], 64)
            raise NotEncoded("address of @%s" % v.name)
        if isinstance(v, Undef):
            if isinstance(v.ty, (StructTy, ArrayTy)):
                return tuple(self._const_value(Undef(f)) for f in
                             (v.ty.fields if isinstance(v.ty, StructTy) else [v.ty.elem] * v.ty.n))
            return self.fresh(self._bits(v.ty))
        if isinstance(v, ConstExpr):
            if v.op == "getelementptr":
                base = self._const_value(v.args[0])
                return _simp(base + self._gep_offset(v.extra, [self._const_value(a) for a in v.args[1:]],
                                                     [a.ty for a in v.args[1:]]))
            if v.op in ("bitcast", "ptrtoint", "inttoptr", "trunc", "zext"):
                x = self._const_value(v.args[0])
                return _simp(self._resize(x, self._bits(v.ty)))
            if v.op == "sext":
                x = self._const_value(v.args[0])
                return _simp(z3.SignExt(self._bits(v.ty) - x.size(), x))
            if v.op in ("add", "sub", "mul", "and", "or", "xor", "shl", "lshr"):
                a, b = self._const_value(v.args[0]), self._const_value(v.args[1])
                f = {"add": lambda: a + b, "sub": lambda: a - b, "mul": lambda: a * b, "and": lambda: a & b,
                     "or": lambda: a | b, "xor": lambda: a ^ b, "shl": lambda: a << b, "lshr": lambda: z3.LShR(a, b)}[v.op]
                return _simp(f())
            raise NotEncoded("constant expression %s" % v.op)
        if isinstance(v, Aggregate):
            return tuple(self._const_value(e) for e in v.elems)
        raise NotEncoded("constant %r" % (v,))

    def _resize(self, x, bits):
        if z3.is_bool(x):
            x = z3.If(x, bv(1, 1), bv(0, 1))
        if x.size() == bits:
            return x
        if x.size() > bits:
            return z3.Extract(bits - 1, 0, x)
        return z3.ZeroExt(bits - x.size(), x)

    def val(self, st, v):
        if isinstance(v, Local):
            try:
                return st.env[v.name]
            except KeyError:
                raise NotEncoded("use of undefined %%%s" % v.name)
        return self._const_value(v)

    def _gep_offset(self, base_ty, idx_vals, idx_tys):
        off = bv(0, 64)
        ty = base_ty
        first = True
        for iv, it in zip(idx_vals, idx_tys):
            if z3.is_bool(iv):
                iv = z3.If(iv, bv(1, 64), bv(0, 64))
            if iv.size() < 64:
                iv = z3.SignExt(64 - iv.size(), iv)
            elif iv.size() > 64:
                iv = z3.Extract(63, 0, iv)
            iv = _simp(iv)
            if first:
                s, _ = size_align(ty)
                off = off + iv * bv(s, 64)
                first = False
                continue
            if isinstance(ty, StructTy):
                if not z3.is_bv_value(iv):
                    raise NotEncoded("symbolic struct index")
                k = iv.as_long()
                off = off + bv(struct_offset(ty, k), 64)
                ty = ty.fields[k]
            elif isinstance(ty, ArrayTy):
                s, _ = size_align(ty.elem)
                off = off + iv * bv(s, 64)
                ty = ty.elem
            else:
                raise NotEncoded("gep into %r" % (ty,))
        return off

    # ------------------------------------------------------------------
    # CFG analysis: loops, unrolled DAG
    # ------------------------------------------------------------------
    def _analyse(self, f):
        if f.name in self._cfg_cache:
            return self._cfg_cache[f.name]
        entry = f.order[0]
        succ = {b: f.succs(b) for b in f.order}
        # DFS for back edges (retreating edges) and reachability
        color = {}
        back = set()
        stack = [(entry, iter(succ[entry]))]
        color[entry] = 1
        while stack:
            b, it = stack[-1]
            for s in it:
                if s not in f.blocks:
                    raise NotEncoded("branch to unknown block %s" % s)
                c = color.get(s, 0)
                if c == 0:
                    color[s] = 1
                    stack.append((s, iter(succ[s])))
                    break
                if c == 1:
                    back.add((b, s))
            else:
                color[b] = 2
                stack.pop()
        preds = {b: [] for b in f.order}
        for b in f.order:
            if b in color:
                for s in succ[b]:
                    preds[s].append(b)
        # natural loop bodies per header
        loops = {}
        for (u, h) in back:
            body = loops.setdefault(h, {h})
            work = [u]
            while work:
                x = work.pop()
                if x in body:
                    continue
                body.add(x)
                work.extend(preds[x])
        # loops containing each block, outermost first (by body size)
        hdrs = sorted(loops, key=lambda h: -len(loops[h]))
        in_loops = {b: tuple(h for h in hdrs if b in loops[h]) for b in f.order}
        info = (entry, succ, back, loops, in_loops)
        self._cfg_cache[f.name] = info
        return info

    def _unrolled_dag(self, f):
        entry, succ, back, loops, in_loops = self._analyse(f)
        K = self.unroll
        start = (entry, tuple((h, 0) for h in in_loops[entry]))
        nodes = {start: []}  # node -> list of (succ_node | 'EXCEEDED', edge index)
        order = [start]
        work = [start]
        while work:
            node = work.pop()
            b, ctx = node
            cd = dict(ctx)
            outs = []
            for ei, s in enumerate(succ[b]):
                if (b, s) in back:
                    i = cd.get(s)
                    if i is None:
                        raise NotEncoded("irreducible control flow")
                    if i + 1 > K:
                        outs.append(("EXCEEDED", ei))
                        continue
                    nctx = []
                    for h in in_loops[s]:
                        if h == s:
                            nctx.append((h, i + 1))
                        else:
                            nctx.append((h, cd[h]))
                    tgt = (s, tuple(nctx))
                else:
                    nctx = []
                    for h in in_loops[s]:
                        nctx.append((h, cd[h]) if h in cd else (h, 0))
                    tgt = (s, tuple(nctx))
                outs.append((tgt, ei))
                if tgt not in nodes:
                    nodes[tgt] = None
                    work.append(tgt)
                    if len(nodes) > self.max_nodes:
                        raise NotEncoded("unrolled graph too large")
            nodes[node] = outs
        # topological order (Kahn)
        indeg = {n: 0 for n in nodes}
        for n, outs in nodes.items():
            for t, _ in outs:
                if t != "EXCEEDED":
                    indeg[t] += 1
        ready = [n for n, d in indeg.items() if d == 0]
        topo = []
        while ready:
            n = ready.pop()
            topo.append(n)
            for t, _ in nodes[n]:
                if t != "EXCEEDED":
                    indeg[t] -= 1
                    if indeg[t] == 0:
                        ready.append(t)
        if len(topo) != len(nodes):
            raise NotEncoded("irreducible control flow (cycle after unrolling)")
        return start, nodes, topo

    # ------------------------------------------------------------------
    # running a function
    # ------------------------------------------------------------------
    def run(self, fname, args, mem, regions, guard=None, depth=0, site_prefix=""):
        f = self.m.functions.get(fname)
        if f is None:
            raise NotEncoded("no definition of %s" % fname)
        if depth > self.call_depth:
            raise NotEncoded("call depth exceeded in %s" % fname)
        res = Result()
        start, nodes, topo = self._unrolled_dag(f)
        res.nodes = len(nodes)
        env0 = {}
        if len(args) != len(f.params):
            raise NotEncoded("arity mismatch calling %s" % fname)
        for p, a in zip(f.params, args):
            env0[p.name] = a
        g0 = guard if guard is not None else z3.BoolVal(True)
        incoming = {start: [State(g0, env0, mem)]}
        rets = []
        self._regions = regions
        for node in topo:
            ins_states = incoming.pop(node, [])
            if not ins_states:
                continue
            if self.deadline is not None and time.time() > self.deadline:
                raise NotEncoded("execution budget exceeded in %s" % fname)
            st = self._merge(ins_states)
            if z3.is_false(st.guard):
                continue
            b = f.blocks[node[0]]
            site_base = "%s%s:%s%s" % (site_prefix, fname, node[0],
                                       "".join("#%d" % i for _, i in node[1]))
            alive = True
            for k, ins in enumerate(b.instrs[:-1]):
                if ins.op == "phi":
                    continue
                res.instrs += 1
                alive = self._exec(f, st, ins, res, "%s.%d" % (site_base, k), depth)
                if not alive:
                    break
            if not alive:
                continue
            term = b.term
            res.instrs += 1
            if term.op == "ret":
                rv = None if isinstance(term.ty, VoidTy) else self.val(st, term.args[0])
                rets.append((st.guard, rv, st.mem))
            elif term.op == "unreachable":
                res.reaches_unreachable = z3.Or(res.reaches_unreachable, st.guard)
            elif term.op in ("br", "switch"):
                conds = self._edge_conds(st, term)
                edges = []
                for (tgt, ei) in nodes[node]:
                    c = conds[ei]
                    eg = _simp(z3.And(st.guard, c))
                    if z3.is_false(eg):
                        continue
                    if self.prune is not None and not z3.is_true(eg) and not z3.is_true(_simp(c)) and (
                            self.prune_all or tgt == "EXCEEDED" or tgt[1] != node[1]):
                        # feasibility pruning: an edge whose guard is unsatisfiable under the harness
                        # precondition is dropped (sound: the guard is false in every model)
                        ps = z3.Solver()
                        ps.set("timeout", self.prune_ms)
                        ps.add(*self.prune)
                        ps.add(eg)
                        self.prune_queries += 1
                        if str(ps.check()) == "unsat":
                            self.pruned_edges += 1
                            continue
                    edges.append((tgt, eg))
                if self.prune is not None and self.prune_all and len(edges) == 1 and len(nodes[node]) > 1:
                    # every other edge was shown infeasible under the precondition: the branch is determined,
                    # so the surviving edge's guard is the state's guard (equivalent under the precondition)
                    edges = [(edges[0][0], st.guard)]
                for (tgt, eg) in edges:
                    if tgt == "EXCEEDED":
                        res.unwind_exceeded = z3.Or(res.unwind_exceeded, eg)
                        continue
                    env = dict(st.env)
                    tb = f.blocks[tgt[0]]
                    new = {}
                    for pin in tb.instrs:
                        if pin.op != "phi":
                            break
                        for (v, lbl) in pin.extra:
                            if lbl == node[0]:
                                new[pin.res] = self.val(st, v)
                                break
                        else:
                            raise NotEncoded("phi without entry for predecessor")
                    env.update(new)
                    incoming.setdefault(tgt, []).append(State(eg, env, st.mem))
            elif term.op == "unsupported":
                raise NotEncoded("%s: %s" % (term.extra, term.line.strip()[:80]))
            else:
                raise NotEncoded("terminator %s" % term.op)
        if rets:
            g = z3.Or(*[r[0] for r in rets]) if len(rets) > 1 else rets[0][0]
            rv, m2 = rets[-1][1], rets[-1][2]
            for (gg, v, mm) in reversed(rets[:-1]):
                if rv is not None:
                    rv = ite(gg, v, rv)
                m2 = ite(gg, mm, m2)
            res.ret, res.ret_guard, res.mem = rv, _simp(g), m2
        else:
            res.ret, res.ret_guard, res.mem = None, z3.BoolVal(False), mem
        return res

    def _merge(self, states):
        if len(states) == 1:
            return states[0]
        guard = _simp(z3.Or(*[s.guard for s in states]))
        base = states[-1]
        env = dict(base.env)
        mem = base.mem
        for s in reversed(states[:-1]):
            for k, v in s.env.items():
                o = env.get(k)
                if o is None:
                    env[k] = v
                elif o is not v:
                    env[k] = ite(s.guard, v, o)
            if s.mem is not mem:
                mem = ite(s.guard, s.mem, mem)
        return State(guard, env, mem)

    def _edge_conds(self, st, term):
        if term.op == "br":
            if len(term.extra) == 1:
                return [z3.BoolVal(True)]
            c = self.val(st, term.args[0])
            if term.extra[0] == term.extra[1]:
                return [z3.BoolVal(True), z3.BoolVal(False)]
            return [c, z3.Not(c)]
        v = self.val(st, term.args[0])
        dflt, cases = term.extra
        conds = []
        others = []
        for cv, _ in cases:
            e = v == bv(cv, v.size())
            others.append(e)
        conds.append(z3.Not(z3.Or(*others)) if others else z3.BoolVal(True))
        conds.extend(others)
        return conds

    # ------------------------------------------------------------------
    # instructions
    # ------------------------------------------------------------------
    def _oblige(self, res, kind, site, st, violated, detail=""):
        v = _simp(z3.And(st.guard, violated))
        if z3.is_false(v):
            return
        res.obligations.append(Obligation(kind, site, v, detail))

    def _exec(self, f, st, ins, res, site, depth):
        op = ins.op
        env = st.env
        if op == "unsupported":
            raise NotEncoded("%s: %s" % (ins.extra, ins.line.strip()[:80]))
        if op in llparse.BINOPS:
            a, b = self.val(st, ins.args[0]), self.val(st, ins.args[1])
            env[ins.res] = self._binop(op, a, b, ins, st, res, site)
            return True
        if op == "icmp":
            a, b = self.val(st, ins.args[0]), self.val(st, ins.args[1])
            env[ins.res] = self._icmp(ins.extra, a, b)
            return True
        if op in ("zext", "sext", "trunc"):
            x = self.val(st, ins.args[0])
            tb = self._bits(ins.ty)
            if z3.is_bool(x):
                if tb == 1:
                    r = x
                elif op == "sext":
                    r = z3.If(x, bv(-1, tb), bv(0, tb))
                else:
                    r = z3.If(x, bv(1, tb), bv(0, tb))
            elif op == "trunc":
                r = (z3.Extract(0, 0, x) == bv(1, 1)) if tb == 1 else z3.Extract(tb - 1, 0, x)
            elif op == "zext":
                r = z3.ZeroExt(tb - x.size(), x)
            else:
                r = z3.SignExt(tb - x.size(), x)
            env[ins.res] = _simp(r)
            return True
        if op in ("bitcast", "ptrtoint", "inttoptr", "addrspacecast"):
            x = self.val(st, ins.args[0])
            if isinstance(ins.ty, (StructTy, ArrayTy)):
                raise NotEncoded("aggregate bitcast")
            tb = self._bits(ins.ty)
            env[ins.res] = x if (not z3.is_bool(x) and x.size() == tb) else self._resize(x, tb)
            return True
        if op == "freeze":
            env[ins.res] = self.val(st, ins.args[0])
            return True
        if op == "select":
            c = self.val(st, ins.args[0])
            a, b = self.val(st, ins.args[1]), self.val(st, ins.args[2])
            env[ins.res] = ite(c, a, b)
            return True
        if op == "getelementptr":
            base = self.val(st, ins.args[0])
            idx = [self.val(st, a) for a in ins.args[1:]]
            off = self._gep_offset(ins.extra, idx, [a.ty for a in ins.args[1:]])
            r = _simp(base + off)
            env[ins.res] = r
            # pointers into small constant tables are remembered so that loads through them become
            # if-then-else chains over the table's entries instead of array reads
            if isinstance(ins.args[0], GlobalRef) and not z3.is_bv_value(r):
                g = self.m.globals.get(ins.args[0].name)
                if g is not None and g.constant:
                    data = self.global_bytes(ins.args[0].name)
                    if data is not None and len(data) <= (64 if isinstance(g.init, BytesConst) else 2048):
                        self._table_ptr = getattr(self, "_table_ptr", {})
                        self._table_ptr[r.get_id()] = (data, _simp(off), r)
            return True
        if op == "load":
            p = self.val(st, ins.args[0])
            if isinstance(ins.ty, (StructTy, ArrayTy)):
                raise NotEncoded("aggregate load")
            bits = self._bits(ins.ty)
            nbytes = (bits + 7) // 8
            self._access(res, site, st, p, nbytes, ins.extra, write=False)
            tp = getattr(self, "_table_ptr", {}).get(p.get_id())
            if tp is not None and len(tp[0]) % nbytes == 0:
                data, off, _ = tp
                v = bv(0, nbytes * 8)
                for k in range(len(data) // nbytes - 1, -1, -1):
                    entry = int.from_bytes(bytes(data[k * nbytes:(k + 1) * nbytes]), "little")
                    v = z3.If(off == bv(k * nbytes, 64), bv(entry, nbytes * 8), v)
                v = _simp(v)
            else:
                v = self._load(st.mem, p, nbytes)
            if bits == 1:
                v = z3.Extract(0, 0, v) == bv(1, 1)
            elif bits != nbytes * 8:
                v = z3.Extract(bits - 1, 0, v)
            env[ins.res] = v
            return True
        if op == "store":
            v = self.val(st, ins.args[0])
            p = self.val(st, ins.args[1])
            if isinstance(v, tuple):
                raise NotEncoded("aggregate store")
            if z3.is_bool(v):
                v = z3.If(v, bv(1, 8), bv(0, 8))
            nbytes = (v.size() + 7) // 8
            if v.size() != nbytes * 8:
                v = z3.ZeroExt(nbytes * 8 - v.size(), v)
            self._access(res, site, st, p, nbytes, ins.extra, write=True)
            st.mem = self._store(st.mem, p, v, nbytes)
            return True
        if op == "alloca":
            ty, align = ins.extra
            size, al = size_align(ty)
            if ins.args:
                n = self.val(st, ins.args[0])
                if not z3.is_bv_value(_simp(n)):
                    raise NotEncoded("variable-size alloca")
                size *= _simp(n).as_long()
            self._stack = getattr(self, "_stack", STACK_BASE)
            al = max(al, align, 16)
            self._stack = (self._stack + al - 1) // al * al
            addr = self._stack
            self._stack += size + 32
            self._regions.append(Region("alloca:" + site, bv(addr, 64), bv(size, 64)))
            env[ins.res] = bv(addr, 64)
            return True
        if op == "extractvalue":
            a = self.val(st, ins.args[0])
            for i in ins.extra:
                a = a[i]
            env[ins.res] = a
            return True
        if op == "insertvalue":
            a = self.val(st, ins.args[0])
            b = self.val(st, ins.args[1])
            if len(ins.extra) != 1:
                raise NotEncoded("nested insertvalue")
            lst = list(a)
            lst[ins.extra[0]] = b
            env[ins.res] = tuple(lst)
            return True
        if op == "call":
            return self._call(f, st, ins, res, site, depth)
        raise NotEncoded("instruction %s" % op)

    def _icmp(self, pred, a, b):
        if z3.is_bool(a) or z3.is_bool(b):
            a = a if z3.is_bool(a) else (a == bv(1, 1))
            b = b if z3.is_bool(b) else (b == bv(1, 1))
            if pred == "eq":
                return a == b
            if pred == "ne":
                return a != b
            a1, b1 = z3.If(a, bv(1, 1), bv(0, 1)), z3.If(b, bv(1, 1), bv(0, 1))
            a, b = a1, b1
        r = {
            "eq": lambda: a == b, "ne": lambda: a != b,
            "ult": lambda: z3.ULT(a, b), "ule": lambda: z3.ULE(a, b),
            "ugt": lambda: z3.UGT(a, b), "uge": lambda: z3.UGE(a, b),
            "slt": lambda: a < b, "sle": lambda: a <= b, "sgt": lambda: a > b, "sge": lambda: a >= b,
        }[pred]()
        return _simp(r)

    def _binop(self, op, a, b, ins, st, res, site):
        if z3.is_bool(a) or z3.is_bool(b):
            a = a if z3.is_bool(a) else (a == bv(1, 1))
            b = b if z3.is_bool(b) else (b == bv(1, 1))
            if op == "and":
                return _simp(z3.And(a, b))
            if op == "or":
                return _simp(z3.Or(a, b))
            if op in ("xor", "add", "sub"):
                return _simp(z3.Xor(a, b))
            if op == "mul":
                return _simp(z3.And(a, b))
            raise NotEncoded("i1 %s" % op)
        n = a.size()
        if self.check_flags and ins.flags:
            if op in ("add", "sub", "mul"):
                if "nsw" in ins.flags:
                    w = z3.SignExt(n, a), z3.SignExt(n, b)
                    wide = {"add": w[0] + w[1], "sub": w[0] - w[1], "mul": w[0] * w[1]}[op]
                    nar = {"add": a + b, "sub": a - b, "mul": a * b}[op]
                    self._oblige(res, "nsw", site, st, wide != z3.SignExt(n, nar), ins.line.strip()[:70])
                if "nuw" in ins.flags:
                    w = z3.ZeroExt(n, a), z3.ZeroExt(n, b)
                    wide = {"add": w[0] + w[1], "sub": w[0] - w[1], "mul": w[0] * w[1]}[op]
                    nar = {"add": a + b, "sub": a - b, "mul": a * b}[op]
                    self._oblige(res, "nuw", site, st, wide != z3.ZeroExt(n, nar), ins.line.strip()[:70])
            elif op == "shl":
                if "nuw" in ins.flags:
                    self._oblige(res, "nuw", site, st, z3.LShR(a << b, b) != a, ins.line.strip()[:70])
                if "nsw" in ins.flags:
                    self._oblige(res, "nsw", site, st, ((a << b) >> b) != a, ins.line.strip()[:70])
            elif op in ("lshr", "ashr", "udiv", "sdiv") and "exact" in ins.flags:
                if op == "lshr":
                    self._oblige(res, "exact", site, st, (z3.LShR(a, b) << b) != a)
                elif op == "ashr":
                    self._oblige(res, "exact", site, st, ((a >> b) << b) != a)
                elif op == "udiv":
                    self._oblige(res, "exact", site, st, z3.URem(a, b) != 0)
                else:
                    self._oblige(res, "exact", site, st, z3.SRem(a, b) != 0)
        if op in ("shl", "lshr", "ashr"):
            self._oblige(res, "shift-amount", site, st, z3.UGE(b, bv(n, n)), ins.line.strip()[:70])
        if op in ("udiv", "urem", "sdiv", "srem"):
            self._oblige(res, "div-by-zero", site, st, b == bv(0, n), ins.line.strip()[:70])
            if op in ("sdiv", "srem"):
                self._oblige(res, "div-overflow", site, st,
                             z3.And(a == bv(1 << (n - 1), n), b == bv(-1, n)), ins.line.strip()[:70])
        r = {
            "add": lambda: a + b, "sub": lambda: a - b, "mul": lambda: a * b,
            "and": lambda: a & b, "or": lambda: a | b, "xor": lambda: a ^ b,
            "shl": lambda: a << b, "lshr": lambda: z3.LShR(a, b), "ashr": lambda: a >> b,
            "udiv": lambda: z3.UDiv(a, b), "urem": lambda: z3.URem(a, b),
            "sdiv": lambda: a / b, "srem": lambda: z3.SRem(a, b),
        }[op]()
        return _simp(r)

    # -- memory ---------------------------------------------------------
    def _load(self, mem, p, nbytes):
        bs = [z3.Select(mem, _simp(p + bv(i, 64))) for i in range(nbytes)]
        if nbytes == 1:
            return bs[0]
        return _simp(z3.Concat(*reversed(bs)))

    def _store(self, mem, p, v, nbytes):
        for i in range(nbytes):
            mem = z3.Store(mem, _simp(p + bv(i, 64)), z3.Extract(8 * i + 7, 8 * i, v))
        return mem

    def _access(self, res, site, st, p, nbytes, align, write):
        ok = []
        for r in self._regions + self.global_regions:
            if write and not r.writable:
                continue
            ok.append(r.contains(p, nbytes))
        self._oblige(res, "oob-write" if write else "oob-read", site, st,
                     z3.Not(z3.Or(*ok)) if ok else z3.BoolVal(True), "%d bytes" % nbytes)
        if align and align > 1:
            self._oblige(res, "misaligned", site, st, (p & bv(align - 1, 64)) != bv(0, 64), "align %d" % align)

    # -- calls ----------------------------------------------------------
    def _call(self, f, st, ins, res, site, depth):
        name = ins.extra
        env = st.env
        A = lambda i: self.val(st, ins.args[i])
        if name.startswith("llvm.lifetime.") or name.startswith("llvm.dbg.") or name in (
                "llvm.experimental.noalias.scope.decl",) or name.startswith("llvm.invariant."):
            return True
        if name == "llvm.assume":
            self._oblige(res, "assume", site, st, z3.Not(A(0)), "llvm.assume")
            return True
        if name.startswith("llvm.bswap."):
            x = A(0)
            n = x.size() // 8
            env[ins.res] = _simp(z3.Concat(*[z3.Extract(8 * i + 7, 8 * i, x) for i in range(n)]))
            return True
        if name.startswith(("llvm.umin.", "llvm.umax.", "llvm.smin.", "llvm.smax.")):
            a, b = A(0), A(1)
            c = {"umin": z3.ULE(a, b), "umax": z3.UGE(a, b), "smin": a <= b, "smax": a >= b}[name.split(".")[1]]
            env[ins.res] = _simp(z3.If(c, a, b))
            return True
        if name.startswith("llvm.abs."):
            a = A(0)
            env[ins.res] = _simp(z3.If(a < 0, -a, a))
            return True
        if name.startswith(("llvm.fshl.", "llvm.fshr.")):
            a, b, c = A(0), A(1), A(2)
            n = a.size()
            sh = z3.URem(c, bv(n, n))
            cat = z3.Concat(a, b)
            sh2 = z3.ZeroExt(n, sh)
            if "fshl" in name:
                env[ins.res] = _simp(z3.Extract(2 * n - 1, n, cat << sh2))
            else:
                env[ins.res] = _simp(z3.Extract(n - 1, 0, z3.LShR(cat, sh2)))
            return True
        if name.startswith("llvm.ctpop."):
            a = A(0)
            n = a.size()
            env[ins.res] = _simp(z3.Sum([z3.ZeroExt(n - 1, z3.Extract(i, i, a)) for i in range(n)]))
            return True
        if name.startswith(("llvm.cttz.", "llvm.ctlz.")):
            a = A(0)
            n = a.size()
            r = bv(n, n)
            rng = range(n - 1, -1, -1) if "cttz" in name else range(n)
            for i in rng:
                idx = i if "cttz" in name else (n - 1 - i)
                r = z3.If(z3.Extract(i, i, a) == bv(1, 1), bv(idx, n), r)
            env[ins.res] = _simp(r)
            return True
        for kind in ("sadd", "uadd", "ssub", "usub", "smul", "umul"):
            if name.startswith("llvm.%s.with.overflow." % kind):
                a, b = A(0), A(1)
                n = a.size()
                ext = z3.SignExt if kind[0] == "s" else z3.ZeroExt
                wa, wb = ext(n, a), ext(n, b)
                o = kind[1:]
                wide = {"add": wa + wb, "sub": wa - wb, "mul": wa * wb}[o]
                nar = {"add": a + b, "sub": a - b, "mul": a * b}[o]
                env[ins.res] = (_simp(nar), _simp(wide != ext(n, nar)))
                return True
        if name.startswith("llvm.load.relative."):
            # relative lookup table: ptr + sext(load i32, ptr + offset)
            p, off = A(0), A(1)
            if off.size() < 64:
                off = z3.SignExt(64 - off.size(), off)
            a = _simp(p + off)
            self._access(res, site, st, a, 4, 4, write=False)
            rel = self._load(st.mem, a, 4)
            env[ins.res] = _simp(p + z3.SignExt(32, rel))
            return True
        if name in ("llvm.ubsantrap", "llvm.trap", "llvm.debugtrap"):
            detail = "ubsantrap"
            if ins.args and isinstance(ins.args[0], Const):
                detail = "ubsantrap kind %d" % ins.args[0].value
            self._oblige(res, "trap", site, st, z3.BoolVal(True), detail)
            return False  # noreturn
        if name in ("__assert_fail", "abort", "_ZSt9terminatev", "__assert_rtn"):
            detail = name
            if name == "__assert_fail" and len(ins.args) >= 3:
                try:
                    s = self._c_string(ins.args[0])
                    line = ins.args[2].value if isinstance(ins.args[2], Const) else "?"
                    detail = "assert(%s) line %s" % (s[:90], line)
                except NotEncoded:
                    pass
            self._oblige(res, "assert", site, st, z3.BoolVal(True), detail)
            return False
        if name.startswith(("llvm.memcpy.", "llvm.memmove.")):
            self._memmove(st, res, site, A(0), A(1), A(2))
            return True
        if name.startswith("llvm.memset."):
            self._memset(st, res, site, A(0), A(1), A(2))
            return True
        if name == "strlen":
            env[ins.res] = self._strlen(st, res, site, A(0))
            return True
        if name == "strcmp":
            env[ins.res] = self._strcmp(st, res, site, A(0), A(1))
            return True
        if name in ("memcmp", "bcmp"):
            env[ins.res] = self._memcmp(st, res, site, A(0), A(1), A(2))
            return True
        if name == "strncmp":
            env[ins.res] = self._strncmp(st, res, site, A(0), A(1), A(2))
            return True
        if name in self.m.functions:
            args = [self.val(st, a) for a in ins.args]
            sub = self.run(name, args, st.mem, self._regions, guard=st.guard, depth=depth + 1,
                           site_prefix=site + ">")
            res.obligations.extend(sub.obligations)
            res.unwind_exceeded = z3.Or(res.unwind_exceeded, sub.unwind_exceeded)
            res.reaches_unreachable = z3.Or(res.reaches_unreachable, sub.reaches_unreachable)
            res.instrs += sub.instrs
            # paths of the callee that do not return end the caller too
            st.guard = _simp(z3.And(st.guard, sub.ret_guard))
            st.mem = sub.mem
            if ins.res is not None:
                env[ins.res] = sub.ret
            return not z3.is_false(st.guard)
        if not self.allow_unmodelled:
            raise NotEncoded("call to external %s" % name)
        # opt-in: an external function without a model; reaching the call is an obligation of its own
        # ("unmodelled-call" must be unreachable for the function to count as encoded)
        self._oblige(res, "unmodelled-call", site, st, z3.BoolVal(True), name)
        if "throw" in name or name in ("abort", "exit", "_ZSt9terminatev"):
            return False
        if ins.res is not None and not isinstance(ins.ty, VoidTy):
            env[ins.res] = self.fresh(self._bits(ins.ty), "ext")
        return True

    def _c_string(self, v):
        if isinstance(v, ConstExpr) and v.op == "getelementptr" and isinstance(v.args[0], GlobalRef):
            data = self.global_bytes(v.args[0].name)
            if data is not None:
                return bytes(data).split(b"\0")[0].decode("latin1")
        if isinstance(v, GlobalRef):
            data = self.global_bytes(v.name)
            if data is not None:
                return bytes(data).split(b"\0")[0].decode("latin1")
        raise NotEncoded("not a constant string")

    MAX_MEMOP = 72

    def _len_bound(self, n):
        n = _simp(n)
        if z3.is_bv_value(n):
            return n.as_long(), True
        return self.MAX_MEMOP, False

    def _memmove(self, st, res, site, dst, src, n):
        if n.size() < 64:
            n = z3.ZeroExt(64 - n.size(), n)
        bound, const = self._len_bound(n)
        if const and bound == 0:
            return
        if const and bound > 4096:
            raise NotEncoded("memcpy of %d bytes" % bound)
        # accesses (only when n > 0)
        nz = n != bv(0, 64)
        okr = [r.contains(src, n) for r in self._regions + self.global_regions]
        okw = [r.contains(dst, n) for r in self._regions + self.global_regions if r.writable]
        self._oblige(res, "oob-read", site, st, z3.And(nz, z3.Not(z3.Or(*okr))), "memmove source")
        self._oblige(res, "oob-write", site, st, z3.And(nz, z3.Not(z3.Or(*okw))), "memmove destination")
        if not const:
            self._oblige(res, "memop-bound", site, st, z3.UGT(n, bv(bound, 64)),
                         "memmove longer than the modelled %d bytes" % bound)
        old = st.mem
        mem = old
        for i in range(bound):
            b = z3.Select(old, _simp(src + bv(i, 64)))
            if const:
                mem = z3.Store(mem, _simp(dst + bv(i, 64)), b)
            else:
                a = _simp(dst + bv(i, 64))
                mem = z3.Store(mem, a, z3.If(z3.ULT(bv(i, 64), n), b, z3.Select(mem, a)))
        st.mem = mem

    def _memset(self, st, res, site, dst, val, n):
        if n.size() < 64:
            n = z3.ZeroExt(64 - n.size(), n)
        bound, const = self._len_bound(n)
        nz = n != bv(0, 64)
        okw = [r.contains(dst, n) for r in self._regions + self.global_regions if r.writable]
        self._oblige(res, "oob-write", site, st, z3.And(nz, z3.Not(z3.Or(*okw))), "memset")
        if not const:
            self._oblige(res, "memop-bound", site, st, z3.UGT(n, bv(bound, 64)), "memset bound")
        mem = st.mem
        for i in range(bound):
            a = _simp(dst + bv(i, 64))
            mem = z3.Store(mem, a, val if const else z3.If(z3.ULT(bv(i, 64), n), val, z3.Select(mem, a)))
        st.mem = mem

    MAX_STR = 40

    def _strlen(self, st, res, site, p):
        r = bv(self.MAX_STR, 64)
        for i in range(self.MAX_STR - 1, -1, -1):
            r = z3.If(z3.Select(st.mem, _simp(p + bv(i, 64))) == bv(0, 8), bv(i, 64), r)
        ok = [reg.contains(p, r + 1) for reg in self._regions + self.global_regions]
        self._oblige(res, "oob-read", site, st, z3.Not(z3.Or(*ok)), "strlen")
        return _simp(r)

    def _strcmp(self, st, res, site, p, q):
        """C contract: sign of the first differing byte (unsigned), 0 if equal
        up to and including the terminator.  Strings longer than MAX_STR are an
        obligation failure (bound)."""
        r = bv(0, 32)
        done_all = z3.BoolVal(False)
        # build from the end
        for i in range(self.MAX_STR - 1, -1, -1):
            a = z3.Select(st.mem, _simp(p + bv(i, 64)))
            b = z3.Select(st.mem, _simp(q + bv(i, 64)))
            diff = z3.ZeroExt(24, a) - z3.ZeroExt(24, b)
            r = z3.If(a != b, diff, z3.If(a == bv(0, 8), bv(0, 32), r))
        # length actually inspected: up to first difference or NUL
        n = bv(self.MAX_STR, 64)
        for i in range(self.MAX_STR - 1, -1, -1):
            a = z3.Select(st.mem, _simp(p + bv(i, 64)))
            b = z3.Select(st.mem, _simp(q + bv(i, 64)))
            n = z3.If(z3.Or(a != b, a == bv(0, 8)), bv(i + 1, 64), n)
        regs = self._regions + self.global_regions
        self._oblige(res, "oob-read", site, st, z3.Not(z3.Or(*[g.contains(p, n) for g in regs])), "strcmp lhs")
        self._oblige(res, "oob-read", site, st, z3.Not(z3.Or(*[g.contains(q, n) for g in regs])), "strcmp rhs")
        return _simp(r)

    def _strncmp(self, st, res, site, p, q, n):
        """C contract: like strcmp, but at most n characters are compared."""
        if n.size() < 64:
            n = z3.ZeroExt(64 - n.size(), n)
        bound, const = self._len_bound(n)
        bound = min(bound, self.MAX_STR)
        if not const:
            self._oblige(res, "memop-bound", site, st, z3.UGT(n, bv(bound, 64)), "strncmp bound")
        r = bv(0, 32)
        seen = bv(bound, 64)
        for i in range(bound - 1, -1, -1):
            a = z3.Select(st.mem, _simp(p + bv(i, 64)))
            b = z3.Select(st.mem, _simp(q + bv(i, 64)))
            diff = z3.ZeroExt(24, a) - z3.ZeroExt(24, b)
            inside = z3.ULT(bv(i, 64), n)
            r = z3.If(z3.Not(inside), bv(0, 32), z3.If(a != b, diff, z3.If(a == bv(0, 8), bv(0, 32), r)))
            seen = z3.If(z3.Not(inside), bv(i, 64), z3.If(z3.Or(a != b, a == bv(0, 8)), bv(i + 1, 64), seen))
        regs = self._regions + self.global_regions
        nz = seen != bv(0, 64)
        self._oblige(res, "oob-read", site, st, z3.And(nz, z3.Not(z3.Or(*[g.contains(p, seen) for g in regs]))), "strncmp lhs")
        self._oblige(res, "oob-read", site, st, z3.And(nz, z3.Not(z3.Or(*[g.contains(q, seen) for g in regs]))), "strncmp rhs")
        return _simp(r)

    def _memcmp(self, st, res, site, p, q, n):
        if n.size() < 64:
            n = z3.ZeroExt(64 - n.size(), n)
        bound, const = self._len_bound(n)
        if not const:
            self._oblige(res, "memop-bound", site, st, z3.UGT(n, bv(bound, 64)), "memcmp bound")
        regs = self._regions + self.global_regions
        nz = n != bv(0, 64)
        self._oblige(res, "oob-read", site, st, z3.And(nz, z3.Not(z3.Or(*[g.contains(p, n) for g in regs]))), "memcmp")
        self._oblige(res, "oob-read", site, st, z3.And(nz, z3.Not(z3.Or(*[g.contains(q, n) for g in regs]))), "memcmp")
        r = bv(0, 32)
        for i in range(bound - 1, -1, -1):
            a = z3.Select(st.mem, _simp(p + bv(i, 64)))
            b = z3.Select(st.mem, _simp(q + bv(i, 64)))
            diff = z3.ZeroExt(24, a) - z3.ZeroExt(24, b)
            r = z3.If(z3.And(z3.ULT(bv(i, 64), n), a != b), diff, r)
        return _simp(r)


def parse(text):
    return llparse.parse_module(text)
