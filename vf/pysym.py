"""E1 -- pysym: a small dynamic symbolic executor for /repo's own Python functions.

The functions under test are the *real function objects* imported from /repo.
Integers that the property quantifies over are `SymInt` (a z3 Int term);
comparisons and truth tests fork eagerly and return genuine Python bools, so
`is True`, `any()`, `all()` etc. in the code under test see ordinary values.
Paths are explored depth-first by re-execution under a decision prefix.

Nothing in here knows anything about Emboss.
"""

import builtins
import time

import z3

_int = builtins.int
_str = builtins.str
_min = builtins.min
_max = builtins.max
_abs = builtins.abs


class PathAbort(BaseException):
    """Control flow of the executor (infeasible path / budget).  BaseException
    so that `except Exception` in code under test cannot swallow it."""


class HarnessGap(Exception):
    """The code under test used a symbolic value in a way the proxies cannot
    keep symbolic (hash, index, ...).  Reported as a harness error, never as a
    verdict."""


_ctx = None


class DictModel:
    """A model read back from another solver's (get-model) output; offers
    the part of z3.ModelRef the harnesses use."""

    def __init__(self, values):
        self.values = values  # name -> python int / bool

    def eval(self, term, model_completion=True):
        subs = []
        for d in _consts_of(term):
            name = d.decl().name()
            v = self.values.get(name)
            if z3.is_bool(d):
                subs.append((d, z3.BoolVal(bool(v) if v is not None else False)))
            else:
                subs.append((d, z3.IntVal(v if v is not None else 0)))
        return z3.simplify(z3.substitute(term, *subs)) if subs else z3.simplify(term)


def _consts_of(term):
    seen, out, stack = set(), [], [term]
    while stack:
        t = stack.pop()
        if t.get_id() in seen:
            continue
        seen.add(t.get_id())
        if z3.is_const(t) and t.decl().kind() == z3.Z3_OP_UNINTERPRETED:
            out.append(t)
        else:
            stack.extend(t.children())
    return out


def cvc5_start(assertions, timeout_ms):
    import os
    import subprocess
    import tempfile

    f = z3.Solver()
    f.add(*assertions)
    text = f.to_smt2()
    text = "(set-logic ALL)\n(set-option :produce-models true)\n" + text + "\n(get-model)\n"
    fd, path = tempfile.mkstemp(suffix=".smt2")
    with os.fdopen(fd, "w") as fh:
        fh.write(text)
    try:
        proc = subprocess.Popen(["cvc5", "--tlimit=%d" % timeout_ms, path], stdout=subprocess.PIPE,
                                stderr=subprocess.DEVNULL, text=True)
    except OSError:
        os.unlink(path)
        return None
    return (proc, path, timeout_ms)


def cvc5_abort(job):
    import os

    if job is None:
        return
    proc, path, _ = job
    try:
        proc.kill()
        proc.communicate()
    except OSError:
        pass
    try:
        os.unlink(path)
    except OSError:
        pass


def cvc5_check(assertions, timeout_ms):
    return cvc5_finish(cvc5_start(assertions, timeout_ms))


def cvc5_finish(job):
    """Waits for the cvc5 binary; returns (status, DictModel)."""
    import os
    import re
    import subprocess

    if job is None:
        return "unknown", None
    proc, path, timeout_ms = job
    try:
        try:
            out = proc.communicate(timeout=timeout_ms / 1000.0 + 5)[0]
        except subprocess.TimeoutExpired:
            proc.kill()
            proc.communicate()
            return "unknown", None
    finally:
        try:
            os.unlink(path)
        except OSError:
            pass
    first = out.strip().split("\n", 1)[0].strip() if out.strip() else ""
    if first == "unsat":
        # (the (get-model) that follows answers with an error; the verdict
        # line precedes it, so no assertion was dropped)
        return "unsat", None
    if first != "sat" or "(error" in out:
        return "unknown", None
    vals = {}
    for m in re.finditer(r"\(define-fun\s+(\S+)\s+\(\)\s+(Int|Bool)\s+(\(-\s*\d+\)|-?\d+|true|false)\)", out):
        name, sort, v = m.group(1).strip("|"), m.group(2), m.group(3)
        if sort == "Bool":
            vals[name] = v == "true"
        else:
            vals[name] = _int(v.replace("(", "").replace(")", "").replace(" ", ""))
    return "sat", DictModel(vals)


def ctx():
    if _ctx is None:
        raise RuntimeError("no symbolic context active")
    return _ctx


class Stats:
    def __init__(self):
        self.paths = 0
        self.forks = 0
        self.queries = 0
        self.sat = 0
        self.unsat = 0
        self.unknown = 0
        self.solver_s = 0.0
        self.fallback = {}

    def add(self, other):
        for k, v in other.__dict__.items():
            if k == "fallback":
                for a, b in v.items():
                    self.fallback[a] = self.fallback.get(a, 0) + b
            else:
                setattr(self, k, getattr(self, k) + v)

    def as_dict(self):
        d = dict(self.__dict__)
        d["solver_s"] = round(d["solver_s"], 3)
        return d


class Ctx:
    """One path execution."""

    def __init__(self, prefix, stats, timeout_ms=20000, nonlinear=False):
        self.prefix = list(prefix)
        self.decisions = []
        self.pending = []  # alternative prefixes discovered on this path
        self.stats = stats
        self.solver = z3.Solver()
        self.solver.set("timeout", timeout_ms)
        self.timeout_ms = timeout_ms
        self.quick_ms = 400
        self.symbolic_divisors = 0
        self._last_model = None
        self.maybe = False  # some feasibility answer on this path was unknown
        self.pc = []
        self.fresh = 0
        self.notes = []

    # -- solver helpers -------------------------------------------------
    def _check(self, *extra):
        t0 = time.time()
        self.solver.set("timeout", min(self.timeout_ms, self.quick_ms))
        s = _str(self.solver.check(*extra))
        if s == "unknown":
            # incremental mode skips z3's preprocessing; retry one-shot on a
            # fresh solver (tactic pipeline: solve-eqs, nlsat, ...), then the
            # cvc5 binary through SMT-LIB2, then z3's qfnia tactic.
            # portfolio: the cvc5 binary is started in the background while
            # z3 one-shot runs; whichever answers first decides.
            job = cvc5_start(list(self.pc) + list(extra), self.timeout_ms)
            try:
                for how, budget in (("z3", min(8000, self.timeout_ms)), ("cvc5", self.timeout_ms),
                                    ("qfnia", self.timeout_ms)):
                    if how == "cvc5":
                        s, m = cvc5_finish(job)
                        job = None
                        if s == "sat":
                            self._last_model = m
                    else:
                        f = z3.Solver() if how == "z3" else z3.Tactic("qfnia").solver()
                        f.set("timeout", budget)
                        f.add(*self.pc)
                        f.add(*extra)
                        s = _str(f.check())
                        if s == "sat":
                            self._last_model = f.model()
                    if s != "unknown":
                        self.stats.fallback[how] = self.stats.fallback.get(how, 0) + 1
                        break
            finally:
                if job is not None:
                    cvc5_abort(job)
        elif s == "sat":
            self._last_model = self.solver.model()
        self.stats.solver_s += time.time() - t0
        self.stats.queries += 1
        if s == "sat":
            self.stats.sat += 1
        elif s == "unsat":
            self.stats.unsat += 1
        else:
            self.stats.unknown += 1
        return s

    def assume(self, cond):
        cond = _as_bool_term(cond)
        self.solver.add(cond)
        self.pc.append(cond)

    def feasible(self):
        return self._check()

    def fresh_int(self, name):
        self.fresh += 1
        return z3.Int("%s!%d" % (name, self.fresh))

    def fork(self, cond):
        """Returns a Python bool for the z3 Bool `cond`, forking if both
        outcomes are feasible under the path condition."""
        cond = z3.simplify(cond)
        if z3.is_true(cond):
            return True
        if z3.is_false(cond):
            return False
        self.stats.forks += 1
        i = len(self.decisions)
        if i < len(self.prefix):
            d = self.prefix[i]
            self.decisions.append(d)
            self.assume(cond if d else z3.Not(cond))
            return d
        rt = self._check(cond)
        rf = self._check(z3.Not(cond))
        if rt == "unsat" and rf == "unsat":
            raise PathAbort("infeasible")
        if rt == "unsat":
            d = False
        elif rf == "unsat":
            d = True
        else:
            if rt == "unknown" or rf == "unknown":
                self.maybe = True
            d = True
            self.pending.append(self.decisions + [False])
        self.decisions.append(d)
        self.assume(cond if d else z3.Not(cond))
        return d

    def choose(self, n, name="choice"):
        """Nondeterministic concrete choice in range(n) (used by harnesses)."""
        v = z3.Int("%s@%d" % (name, len(self.decisions)))
        self.assume(z3.And(v >= 0, v < n))
        for k in range(n - 1):
            if self.fork(v == k):
                return k
        return n - 1

    # -- obligations ----------------------------------------------------
    def prove(self, formula):
        """Is `formula` implied by the path condition?  Returns
        ('unsat', None) if yes, ('sat', model) with a counterexample, or
        ('unknown', None)."""
        r = self._check(z3.Not(_as_bool_term(formula)))
        if r == "sat":
            return r, self._last_model
        return r, None

    def witness(self, formula=None):
        """Is the path (plus formula) reachable?  Returns model or None."""
        r = self._check(*([_as_bool_term(formula)] if formula is not None else []))
        if r == "sat":
            return self._last_model
        return None


def _as_bool_term(c):
    if isinstance(c, bool):
        return z3.BoolVal(c)
    return c


# ----------------------------------------------------------------------
# Symbolic integers
# ----------------------------------------------------------------------


def _term(x):
    if isinstance(x, SymInt):
        return x.t
    if isinstance(x, SymIntStr):
        return x.sym.t
    if isinstance(x, SymChoiceStr):
        r = x.resolve()
        return _term(r) if isinstance(r, SymIntStr) else None
    if isinstance(x, bool):
        return z3.IntVal(_int(x))
    if isinstance(x, _int):
        return z3.IntVal(_int(x))  # (IntEnum members print as names)
    return None


def py_mod(a, b):
    """Python's floor-mod on z3 Int terms (z3's mod is Euclidean)."""
    if z3.is_int_value(b):
        if b.as_long() > 0:
            return a % b
        if b.as_long() < 0:
            return -((-a) % (-b))
    return z3.If(b > 0, a % b, -((-a) % (-b)))


def py_floordiv(a, b):
    if z3.is_int_value(b) and b.as_long() > 0:
        return a / b
    # floor(a/b) = (a - py_mod(a,b)) / b exactly
    return (a - py_mod(a, b)) / b


def divmod_terms(a, d):
    """(quotient, remainder) of Python floor division for z3 Int terms.  For a
    numeral divisor uses z3's div/mod; for a symbolic divisor forks on its
    sign and introduces the quotient and remainder as fresh constants with
    their defining (always satisfiable) constraints -- z3 decides products
    against an explicit quotient far better than `mod` by a non-numeral."""
    d = z3.simplify(d)
    if z3.is_int_value(d):
        return z3.simplify(py_floordiv(a, d)), z3.simplify(py_mod(a, d))
    c = ctx()
    c.symbolic_divisors += 1
    q, r = c.fresh_int("quo"), c.fresh_int("rem")
    if c.fork(d > 0):
        c.assume(z3.And(a == d * q + r, r >= 0, r < d))
    else:
        c.assume(z3.And(a == d * q + r, r <= 0, r > d))
    return q, r


class SymInt:
    __slots__ = ("t",)

    def __init__(self, t):
        if isinstance(t, _int):
            t = z3.IntVal(t)
        self.t = t

    # arithmetic
    def _bin(self, other, f, rev=False):
        o = _term(other)
        if o is None:
            return NotImplemented
        return SymInt(z3.simplify(f(o, self.t) if rev else f(self.t, o)))

    def __add__(self, o):
        return self._bin(o, lambda a, b: a + b)

    def __radd__(self, o):
        return self._bin(o, lambda a, b: a + b, True)

    def __sub__(self, o):
        return self._bin(o, lambda a, b: a - b)

    def __rsub__(self, o):
        return self._bin(o, lambda a, b: a - b, True)

    def __mul__(self, o):
        return self._bin(o, lambda a, b: a * b)

    def __rmul__(self, o):
        return self._bin(o, lambda a, b: a * b, True)

    def _divcheck(self, d):
        if ctx().fork(d == 0):
            raise ZeroDivisionError("integer division or modulo by zero")

    def __mod__(self, o):
        d = _term(o)
        if d is None:
            return NotImplemented
        self._divcheck(d)
        return SymInt(divmod_terms(self.t, d)[1])

    def __rmod__(self, o):
        n = _term(o)
        if n is None:
            return NotImplemented
        self._divcheck(self.t)
        return SymInt(divmod_terms(n, self.t)[1])

    def __floordiv__(self, o):
        d = _term(o)
        if d is None:
            return NotImplemented
        self._divcheck(d)
        return SymInt(divmod_terms(self.t, d)[0])

    def __rfloordiv__(self, o):
        n = _term(o)
        if n is None:
            return NotImplemented
        self._divcheck(self.t)
        return SymInt(divmod_terms(n, self.t)[0])

    def __neg__(self):
        return SymInt(z3.simplify(-self.t))

    def __pos__(self):
        return self

    def __abs__(self):
        return SymInt(z3.simplify(z3.If(self.t >= 0, self.t, -self.t)))

    POW_RANGE = (0, 130)

    def __rpow__(self, base):
        """base ** self with a concrete base: forks over the exponent inside
        POW_RANGE; an exponent outside is a harness gap."""
        if not isinstance(base, _int):
            return NotImplemented
        c = ctx()
        lo, hi = self.POW_RANGE
        if c.fork(z3.Or(self.t < lo, self.t > hi)):
            raise HarnessGap("exponent outside %r" % (self.POW_RANGE,))
        for e in range(lo, hi):
            if c.fork(self.t == e):
                return base**e
        return base**hi

    def __pow__(self, e):
        if isinstance(e, _int) and 0 <= e <= 4:
            r = SymInt(z3.IntVal(1))
            for _ in range(e):
                r = r * self
            return r
        return NotImplemented

    # comparisons: eager forks
    def _cmp(self, other, f, default):
        o = _term(other)
        if o is None:
            return default
        return ctx().fork(f(self.t, o))

    def __eq__(self, o):
        return self._cmp(o, lambda a, b: a == b, False)

    def __ne__(self, o):
        return self._cmp(o, lambda a, b: a != b, True)

    def __lt__(self, o):
        r = self._cmp(o, lambda a, b: a < b, None)
        return NotImplemented if r is None else r

    def __le__(self, o):
        r = self._cmp(o, lambda a, b: a <= b, None)
        return NotImplemented if r is None else r

    def __gt__(self, o):
        r = self._cmp(o, lambda a, b: a > b, None)
        return NotImplemented if r is None else r

    def __ge__(self, o):
        r = self._cmp(o, lambda a, b: a >= b, None)
        return NotImplemented if r is None else r

    def __bool__(self):
        return ctx().fork(self.t != 0)

    def __hash__(self):
        raise HarnessGap("hash() of a symbolic integer")

    def __index__(self):
        raise HarnessGap("symbolic integer used as an index")

    def __int__(self):
        raise HarnessGap("builtin int() of a symbolic integer (module not instrumented?)")

    def __repr__(self):
        return "SymInt(%s)" % self.t

    __str__ = __repr__

    def __format__(self, spec):
        return "<sym:%s>" % self.t


class SymIntStr(_str):
    """A `str` that stands for the decimal rendering of a symbolic integer.
    ir_data's IntegerType fields insist on isinstance(value, str)."""

    def __new__(cls, sym):
        s = _str.__new__(cls, "<symbolic-decimal>")
        s.sym = sym
        return s

    def _other(self, o):
        if isinstance(o, SymChoiceStr):
            o = o.resolve()
        if isinstance(o, SymIntStr):
            return o.sym.t
        if isinstance(o, _str):
            try:
                v = _int(o)
            except ValueError:
                return None
            if _str(v) != o:
                return None  # not canonical decimal: never equal to str(int)
            return z3.IntVal(v)
        return None

    def __eq__(self, o):
        t = self._other(o)
        if t is None:
            return False
        return ctx().fork(self.sym.t == t)

    def __ne__(self, o):
        return not self.__eq__(o)

    def __hash__(self):
        raise HarnessGap("hash() of a symbolic decimal string")

    def __bool__(self):
        return True  # str(int) is never empty

    def __repr__(self):
        return "SymIntStr(%s)" % self.sym.t

    def __str__(self):
        return self

    def __len__(self):
        raise HarnessGap("len() of a symbolic decimal string")

    def __iter__(self):
        raise HarnessGap("iteration over a symbolic decimal string")

    def __getitem__(self, i):
        raise HarnessGap("indexing a symbolic decimal string")


class SymChoiceStr(_str):
    """A `str` that is one of several alternatives (plain strings or
    SymIntStr), selected by z3 Bool conditions; the alternative is fixed by a
    fork the first time the code under test looks at the string."""

    def __new__(cls, alts):
        s = _str.__new__(cls, "<symbolic-choice>")
        s.alts = alts  # [(cond, value)], last cond ignored (else-branch)
        s._res = None
        return s

    def resolve(self):
        if self._res is None:
            c = ctx()
            for cond, val in self.alts[:-1]:
                if c.fork(cond):
                    self._res = val
                    break
            else:
                self._res = self.alts[-1][1]
        return self._res

    def __eq__(self, o):
        if isinstance(o, SymChoiceStr):
            o = o.resolve()
        return self.resolve() == o

    def __ne__(self, o):
        return not self.__eq__(o)

    def __hash__(self):
        # looking the string up in a set/dict fixes the alternative (a fork), then hashes the plain value
        return hash(self.resolve())

    def __bool__(self):
        return True

    def __repr__(self):
        return "SymChoiceStr(%r)" % (self.alts,)

    def __str__(self):
        return self

    def __len__(self):
        raise HarnessGap("len() of a symbolic choice string")


# ----------------------------------------------------------------------
# Replacements for builtins, injected into the module under test
# ----------------------------------------------------------------------


def sym_int(x=0, *a):
    if isinstance(x, SymInt):
        return x
    if isinstance(x, SymChoiceStr):
        x = x.resolve()
    if isinstance(x, SymIntStr):
        return x.sym
    return _int(x, *a)


def sym_str(x=""):
    if isinstance(x, SymInt):
        return SymIntStr(x)
    if isinstance(x, (SymIntStr, SymChoiceStr)):
        return x
    return _str(x)


def _is_sym(x):
    return isinstance(x, (SymInt, SymIntStr, SymChoiceStr))


def _minmax(args, kw, pick_first_if, builtin):
    if len(args) == 1:
        items = list(args[0])
    else:
        items = list(args)
    if kw or not any(_is_sym(i) for i in items):
        return builtin(items, **kw) if items or kw else builtin(items)
    if not items:
        return builtin(items)
    acc = _term(items[0])
    for it in items[1:]:
        t = _term(it)
        acc = z3.If(pick_first_if(acc, t), acc, t)
    return SymInt(z3.simplify(acc))


def sym_min(*args, **kw):
    return _minmax(args, kw, lambda a, b: a <= b, _min)


def sym_max(*args, **kw):
    return _minmax(args, kw, lambda a, b: a >= b, _max)


def sym_abs(x):
    if isinstance(x, SymInt):
        # fork on the sign: keeps later terms free of if-then-else
        return x if ctx().fork(x.t >= 0) else -x
    return _abs(x)


def sym_isinstance(obj, cls):
    """isinstance that lets a SymInt pass as an int."""
    if isinstance(obj, SymInt):
        if cls is _int:
            return True
        if isinstance(cls, tuple) and _int in cls:
            return True
    return isinstance(obj, cls)


# min/max are deliberately *not* injected by default: Python's own min/max
# over SymInt fork through the comparison operators, which keeps result terms
# free of if-then-else (z3 decides non-linear queries far better that way).
# sym_min/sym_max (ite-building) remain available through `extra=`.
INJECT = {
    "int": sym_int,
    "str": sym_str,
    "abs": sym_abs,
}


class instrument:
    """Context manager: injects the symbolic builtins into the given modules'
    namespaces (shadowing the builtins for code defined in those modules)."""

    def __init__(self, *modules, extra=None):
        self.modules = modules
        self.extra = extra or {}
        self.saved = []

    def __enter__(self):
        names = dict(INJECT)
        names.update(self.extra)
        for m in self.modules:
            for k, v in names.items():
                self.saved.append((m, k, m.__dict__.get(k, _MISSING)))
                m.__dict__[k] = v
        return self

    def __exit__(self, *exc):
        for m, k, old in reversed(self.saved):
            if old is _MISSING:
                m.__dict__.pop(k, None)
            else:
                m.__dict__[k] = old
        self.saved = []
        return False


_MISSING = object()


# ----------------------------------------------------------------------
# Exploration
# ----------------------------------------------------------------------


class PathResult:
    __slots__ = ("kind", "value", "exc", "ctx")

    def __init__(self, kind, value, exc, c):
        self.kind = kind  # "return" | "raise"
        self.value = value
        self.exc = exc
        self.ctx = c


def explore(body, on_path, max_paths=20000, timeout_ms=20000, stats=None):
    """Runs `body(ctx)` on every feasible path.

    body(ctx) creates its symbolic inputs (deterministically named), calls the
    code under test and returns whatever the oracle needs.  `on_path(result)`
    is called at the end of each path with the context still active, so it
    can discharge obligations under the path condition.

    Returns (stats, complete): complete is False if max_paths was hit.
    """
    global _ctx
    stats = stats or Stats()
    work = [[]]
    complete = True
    while work:
        if stats.paths >= max_paths:
            complete = False
            break
        prefix = work.pop()
        c = Ctx(prefix, stats, timeout_ms)
        _ctx = c
        try:
            try:
                v = body(c)
                res = PathResult("return", v, None, c)
            except PathAbort:
                work.extend(c.pending)
                continue
            except HarnessGap:
                raise
            except Exception as e:  # pylint: disable=broad-except
                res = PathResult("raise", None, e, c)
            work.extend(c.pending)
            c.pending = []
            stats.paths += 1
            try:
                on_path(res)
            except PathAbort:
                pass
            work.extend(c.pending)
        finally:
            _ctx = None
    return stats, complete


def model_int(model, term):
    v = model.eval(term, model_completion=True)
    return v.as_long()
