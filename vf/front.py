"""Runs /repo's current front end and C++ back end in-process."""

import os

from vf import common  # noqa: F401  (puts /repo on sys.path)

from compiler.front_end import glue
from compiler.front_end import emboss_front_end
from compiler.back_end.cpp import header_generator
from compiler.util import error as emb_error


class FrontEndError(Exception):
    pass


def _fmt(errors, ir):
    try:
        src = {}
        if ir:
            for m in ir.module:
                src[m.source_file_name] = m.source_text
        return emb_error.format_errors(errors, src, False)
    except Exception:  # pylint: disable=broad-except
        return repr(errors)[:2000]


def parse(emb_name, import_dirs, stop_before_step=None):
    """Returns the IR of module `emb_name` (searched in import_dirs)."""
    reader = emboss_front_end._find_in_dirs_and_read(list(import_dirs))
    ir, _, errors = glue.parse_emboss_file(emb_name, reader, stop_before_step)
    if errors:
        raise FrontEndError(_fmt(errors, ir))
    return ir


def header(ir, enum_traits=True):
    h, errors = header_generator.generate_header(ir, header_generator.Config(include_enum_traits=enum_traits))
    if errors:
        raise FrontEndError(_fmt(errors, ir))
    return h


def compile_module(emb_name, import_dirs, out_dir, enum_traits=True):
    """Generates <out_dir>/<emb_name>.h (and the headers of its imports).
    Returns the final IR of the main module."""
    ir = parse(emb_name, import_dirs)
    done = set()

    def emit(name, this_ir):
        if name in done:
            return
        done.add(name)
        h = header(this_ir, enum_traits)
        path = os.path.join(out_dir, name + ".h")
        os.makedirs(os.path.dirname(path), exist_ok=True)
        with open(path, "w") as f:
            f.write(h)

    # imported modules (other than the prelude) need their own headers
    for m in ir.module[1:]:
        if m.source_file_name and m.source_file_name != "":
            emit(m.source_file_name, parse(m.source_file_name, import_dirs))
    emit(emb_name, ir)
    return ir
