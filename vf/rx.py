"""Python `re` patterns -> z3 regular expressions, and a symbolic backtracking
matcher over strings whose characters are solver variables.

Only the constructs the Emboss tokenizer uses are supported: literals,
character classes (literals, ranges, negation, \\s), `.`, `$`, alternation,
non-capturing groups, greedy * + ? {m,n}.  Anything else raises Unsupported.
"""

import re

import z3

try:  # Python >= 3.11
    import re._parser as sre_parse
    import re._constants as sre_constants
except ImportError:  # pragma: no cover
    import sre_parse
    import sre_constants

C = sre_constants


class Unsupported(Exception):
    pass


STR = z3.StringSort()
RE = z3.ReSort(STR)

# Python's str.isspace()/\s for str patterns (Unicode whitespace)
WHITESPACE = [0x09, 0x0A, 0x0B, 0x0C, 0x0D, 0x1C, 0x1D, 0x1E, 0x1F, 0x20, 0x85, 0xA0, 0x1680] + \
    list(range(0x2000, 0x200B)) + [0x2028, 0x2029, 0x202F, 0x205F, 0x3000]


def ch(c):
    return z3.Re(z3.StringVal(chr(c) if isinstance(c, int) else c))


def any_char():
    return z3.AllChar(RE)


def union(parts):
    parts = list(parts)
    if not parts:
        return z3.Empty(RE)
    if len(parts) == 1:
        return parts[0]
    return z3.Union(*parts)


def concat(parts):
    parts = list(parts)
    if not parts:
        return z3.Re(z3.StringVal(""))
    if len(parts) == 1:
        return parts[0]
    return z3.Concat(*parts)


def class_to_re(items):
    negate = False
    parts = []
    for op, av in items:
        if op == C.NEGATE:
            negate = True
        elif op == C.LITERAL:
            parts.append(ch(av))
        elif op == C.RANGE:
            parts.append(z3.Range(z3.StringVal(chr(av[0])), z3.StringVal(chr(av[1]))))
        elif op == C.CATEGORY:
            if av == C.CATEGORY_SPACE:
                parts.extend(ch(w) for w in WHITESPACE)
            elif av == C.CATEGORY_DIGIT:
                parts.append(z3.Range(z3.StringVal("0"), z3.StringVal("9")))
            else:
                raise Unsupported("category %r" % av)
        else:
            raise Unsupported("class item %r" % op)
    u = union(parts)
    if negate:
        return z3.Intersect(any_char(), z3.Complement(u))
    return u


def tree_to_re(tree):
    """Returns (z3 regex, anchored_at_end: bool)."""
    parts = []
    at_end = False
    items = list(tree)
    for idx, (op, av) in enumerate(items):
        if op == C.LITERAL:
            parts.append(ch(av))
        elif op == C.NOT_LITERAL:
            parts.append(z3.Intersect(any_char(), z3.Complement(ch(av))))
        elif op == C.ANY:
            parts.append(z3.Intersect(any_char(), z3.Complement(ch("\n"))))
        elif op == C.IN:
            parts.append(class_to_re(av))
        elif op == C.AT:
            if av == C.AT_END and idx == len(items) - 1:
                at_end = True
            else:
                raise Unsupported("anchor %r" % av)
        elif op == C.BRANCH:
            alts = []
            for b in av[1]:
                r, e = tree_to_re(b)
                if e:
                    raise Unsupported("anchor inside alternation")
                alts.append(r)
            parts.append(union(alts))
        elif op == C.SUBPATTERN:
            r, e = tree_to_re(av[3])
            if e:
                raise Unsupported("anchor inside group")
            parts.append(r)
        elif op in (C.MAX_REPEAT,):
            lo, hi, sub = av
            r, e = tree_to_re(sub)
            if e:
                raise Unsupported("anchor inside repeat")
            if hi == C.MAXREPEAT:
                if lo == 0:
                    parts.append(z3.Star(r))
                elif lo == 1:
                    parts.append(z3.Plus(r))
                else:
                    parts.append(z3.Concat(z3.Loop(r, lo, lo), z3.Star(r)))
            else:
                parts.append(z3.Loop(r, lo, hi))
        else:
            raise Unsupported("regex construct %r" % (op,))
    return concat(parts), at_end


def pattern_to_re(pattern):
    return tree_to_re(sre_parse.parse(pattern))


# ----------------------------------------------------------------------
# Characters as integer code points (linear arithmetic: fast)
# ----------------------------------------------------------------------


_TRUE, _FALSE = z3.BoolVal(True), z3.BoolVal(False)


def _concrete_class(items, v):
    negate = False
    hit = False
    for op, av in items:
        if op == C.NEGATE:
            negate = True
        elif op == C.LITERAL:
            hit = hit or v == av
        elif op == C.RANGE:
            hit = hit or av[0] <= v <= av[1]
        elif op == C.CATEGORY:
            if av == C.CATEGORY_SPACE:
                hit = hit or v in WHITESPACE
            elif av == C.CATEGORY_DIGIT:
                hit = hit or 48 <= v <= 57
            else:
                raise Unsupported("category %r" % av)
        else:
            raise Unsupported("class item %r" % op)
    return hit != negate


def class_cond(items, c):
    """z3 Bool: code point term `c` is in the character class."""
    if z3.is_int_value(c):
        return _TRUE if _concrete_class(items, c.as_long()) else _FALSE
    negate = False
    parts = []
    for op, av in items:
        if op == C.NEGATE:
            negate = True
        elif op == C.LITERAL:
            parts.append(c == av)
        elif op == C.RANGE:
            parts.append(z3.And(c >= av[0], c <= av[1]))
        elif op == C.CATEGORY:
            if av == C.CATEGORY_SPACE:
                parts.append(z3.Or(*[c == w for w in WHITESPACE]))
            elif av == C.CATEGORY_DIGIT:
                parts.append(z3.And(c >= 48, c <= 57))
            else:
                raise Unsupported("category %r" % av)
        else:
            raise Unsupported("class item %r" % op)
    u = z3.Or(*parts) if parts else z3.BoolVal(False)
    return z3.Not(u) if negate else u


def is_space(c):
    return z3.Or(*[c == w for w in WHITESPACE])


def atom_cond(op, av, c):
    if z3.is_int_value(c) and op in (C.LITERAL, C.NOT_LITERAL, C.ANY):
        v = c.as_long()
        return _TRUE if (v == av if op == C.LITERAL else v != av if op == C.NOT_LITERAL else v != 10) else _FALSE
    if op == C.LITERAL:
        return c == av
    if op == C.NOT_LITERAL:
        return c != av
    if op == C.ANY:
        return c != 10
    if op == C.IN:
        return class_cond(av, c)
    raise Unsupported("atom %r" % (op,))


# ----------------------------------------------------------------------
# Symbolic backtracking matcher (Python's priority order)
# ----------------------------------------------------------------------


def match_alternatives(tree, chars, start):
    """All ways `tree` can match at chars[start:], in Python's backtracking
    priority order.  Returns [(condition: z3 Bool, end position)].
    The real `re.match` result is the first alternative whose condition holds."""
    items = list(tree)
    n = len(chars)

    def seq(i, pos):
        if i == len(items):
            return [(z3.BoolVal(True), pos)]
        op, av = items[i]
        out = []

        def then(cond, p):
            if z3.is_false(cond):
                return  # a concrete mismatch: nothing continues from here
            for c2, e2 in seq(i + 1, p):
                if z3.is_false(c2):
                    continue
                out.append((c2 if z3.is_true(cond) else cond if z3.is_true(c2) else z3.And(cond, c2), e2))

        if op in (C.LITERAL, C.NOT_LITERAL, C.ANY, C.IN):
            if pos >= n:
                return []
            then(atom_cond(op, av, chars[pos]), pos + 1)
            return out
        if op == C.AT:
            if av != C.AT_END:
                raise Unsupported("anchor")
            if pos == n:
                then(z3.BoolVal(True), pos)
            return out
        if op == C.BRANCH:
            for b in av[1]:
                for c1, e1 in match_alternatives(b, chars, pos):
                    then(c1, e1)
            return out
        if op == C.SUBPATTERN:
            for c1, e1 in match_alternatives(av[3], chars, pos):
                then(c1, e1)
            return out
        if op == C.MAX_REPEAT:
            lo, hi, sub = av

            def rep(count, p, cond, depth):
                res = []
                if (hi == C.MAXREPEAT or count < hi) and depth < n + 2:
                    for c1, e1 in match_alternatives(sub, chars, p):
                        if e1 == p or z3.is_false(c1):
                            continue
                        res.extend(rep(count + 1, e1, c1 if z3.is_true(cond) else cond if z3.is_true(c1) else z3.And(cond, c1), depth + 1))
                if count >= lo:
                    res.append((cond, p))
                return res

            for c1, e1 in rep(0, pos, z3.BoolVal(True), 0):
                then(c1, e1)
            return out
        raise Unsupported("regex construct %r" % (op,))

    return seq(0, start)


class SymMatch:
    def __init__(self, text, start=0, end=None):
        self._text = text
        self._start = start
        self._end = start + len(text) if end is None else end

    def group(self, k=0):
        assert k == 0
        return self._text

    def start(self, k=0):
        return self._start

    def end(self, k=0):
        return self._end

    def span(self, k=0):
        return (self._start, self._end)


def concrete_match_end(pattern, s):
    chars = [z3.IntVal(ord(c)) for c in s]
    for cond, end in match_alternatives(sre_parse.parse(pattern), chars, 0):
        if z3.is_true(z3.simplify(cond)):
            return end
    return None


# ----------------------------------------------------------------------
# Language membership by NFA simulation (no priorities): a different
# algorithm from the backtracking interpreter above, used by the reference
# tokenizer
# ----------------------------------------------------------------------


class NFA:
    def __init__(self, tree):
        self.eps = {}
        self.trans = {}  # state -> [(predicate(c) -> z3 Bool, target)]
        self.n = 0
        self.at_end = False
        self.start = self.new()
        self.accept = self.build(list(tree), self.start, top=True)

    def new(self):
        self.n += 1
        self.eps[self.n] = []
        self.trans[self.n] = []
        return self.n

    def build(self, items, cur, top=False):
        for idx, (op, av) in enumerate(items):
            if op in (C.LITERAL, C.NOT_LITERAL, C.ANY, C.IN):
                nxt = self.new()
                self.trans[cur].append((lambda c, op=op, av=av: atom_cond(op, av, c), nxt))
                cur = nxt
            elif op == C.AT:
                if av == C.AT_END and top and idx == len(items) - 1:
                    self.at_end = True
                else:
                    raise Unsupported("anchor")
            elif op == C.BRANCH:
                end = self.new()
                for b in av[1]:
                    s = self.new()
                    self.eps[cur].append(s)
                    self.eps[self.build(list(b), s)].append(end)
                cur = end
            elif op == C.SUBPATTERN:
                cur = self.build(list(av[3]), cur)
            elif op == C.MAX_REPEAT:
                lo, hi, sub = av
                for _ in range(lo):
                    cur = self.build(list(sub), cur)
                if hi == C.MAXREPEAT:
                    loop = self.new()
                    self.eps[cur].append(loop)
                    back = self.build(list(sub), loop)
                    self.eps[back].append(loop)
                    cur = loop
                else:
                    end = self.new()
                    self.eps[cur].append(end)
                    for _ in range(hi - lo):
                        cur = self.build(list(sub), cur)
                        self.eps[cur].append(end)
                    cur = end
            else:
                raise Unsupported("regex construct %r" % (op,))
        return cur

    def closure(self, conds):
        out = dict(conds)
        work = list(conds)
        while work:
            s = work.pop()
            for t in self.eps[s]:
                new = out[s] if t not in out else z3.Or(out[t], out[s])
                if t not in out or not out[t].eq(new):
                    if t in out and z3.is_true(z3.simplify(z3.Implies(out[s], out[t]))):
                        continue
                    out[t] = z3.simplify(new)
                    work.append(t)
        return out

    def accepts(self, chars):
        """z3 Bool: the whole sequence `chars` is in the language."""
        cur = self.closure({self.start: z3.BoolVal(True)})
        for c in chars:
            nxt = {}
            for s, cond in cur.items():
                for pred, t in self.trans[s]:
                    f = z3.simplify(z3.And(cond, pred(c)))
                    if z3.is_false(f):
                        continue
                    nxt[t] = f if t not in nxt else z3.simplify(z3.Or(nxt[t], f))
            cur = self.closure(nxt)
            if not cur:
                return z3.BoolVal(False)
        return cur.get(self.accept, z3.BoolVal(False))
