#!/usr/bin/env python3
"""Regenerates the seeded-change table in DESIGN.md from seeded/*/meta.json."""
import glob
import json
import os
import re

HERE = os.path.dirname(os.path.dirname(os.path.abspath(__file__)))
rows = []
for mp in sorted(glob.glob(os.path.join(HERE, "seeded", "*", "meta.json"))):
    m = json.load(open(mp))
    notes = os.path.join(os.path.dirname(mp), "notes.md")
    first = ""
    if os.path.exists(notes):
        for line in open(notes):
            line = line.strip().lstrip("#").strip()
            if line:
                first = line[:90]
                break
    det = []
    for c, v in sorted(m.get("checks_run", {}).items()):
        det.append("%s %s: %s" % (c, v.get("tier", "quick"), "caught (exit 1)" if v["exit"] == 1 else "missed (exit %d)" % v["exit"]))
    rows.append("| %s | %s | %s | %s |" % (m["id"], m["property"], first.replace("|", "/"), "; ".join(det) or "not run"))
table = "| seed | property | change | result |\n|---|---|---|---|\n" + "\n".join(rows)
p = os.path.join(HERE, "DESIGN.md")
s = open(p).read()
if "SEED_TABLE_PLACEHOLDER" in s:
    s = s.replace("SEED_TABLE_PLACEHOLDER", "<!-- seed table -->\n" + table + "\n<!-- end seed table -->")
else:
    s = re.sub(r"<!-- seed table -->.*?<!-- end seed table -->", "<!-- seed table -->\n" + table + "\n<!-- end seed table -->", s, flags=re.S)
open(p, "w").write(s)
print("%d seeds" % len(rows))
