#!/usr/bin/env python3
"""Generates /verif/corpus/gen_<k>.emb: structures combining the language's
layout features in ways the hand-written corpus does not (conditional fields
after dynamic arrays, bits blocks next to nested structures, parameters,
virtual fields over several operand kinds).  Deterministic: the files are
regenerated identically from the fixed seeds below and are committed, so every
run of the checks sees the same programs.

usage: tools/gen_corpus.py [count]
"""
import os
import random
import sys

HERE = os.path.dirname(os.path.dirname(os.path.abspath(__file__)))


class Gen:
    def __init__(self, seed):
        self.r = random.Random(1000 + seed)
        self.seed = seed
        self.n = 0

    def name(self, p="f"):
        self.n += 1
        return "%s%d" % (p, self.n)

    def enum(self, k):
        signed = self.r.random() < 0.3
        vals = sorted(self.r.sample(range(-3 if signed else 0, 12), self.r.randint(2, 4)))
        lines = ["enum Kind%d:" % k]
        if self.r.random() < 0.5:
            lines.append("  [maximum_bits: %d]" % (8 if not signed else 8))
            if signed:
                lines.append("  [is_signed: true]")
        elif signed:
            lines.append("  [is_signed: true]")
        for i, v in enumerate(vals):
            lines.append("  V%d_%d = %d" % (k, i, v))
        return "\n".join(lines) + "\n", ["Kind%d.V%d_%d" % (k, i, v) for i, v in enumerate(vals)]

    def leaf(self):
        return ("struct Leaf:\n  0 [+1]  UInt  lo\n  1 [+1]  Int   hi\n  let sum = lo + hi\n", 2)

    def param_struct(self):
        return ("struct Span(n: UInt:8):\n  0 [+n]  UInt:8[]  bytes\n"
                "  let count = n\n")

    def int_expr(self, ints, depth=0):
        r = self.r
        if not ints or (depth > 1) or r.random() < 0.3:
            return r.choice(ints) if ints and r.random() < 0.8 else str(r.randint(0, 9))
        k = r.random()
        a, b = self.int_expr(ints, depth + 1), self.int_expr(ints, depth + 1)
        if k < 0.3:
            return "%s + %s" % (a, b)
        if k < 0.5:
            return "%s - %s" % (a, b)
        if k < 0.65:
            return "(%s) * %d" % (a, r.randint(2, 6))
        if k < 0.8:
            return "$max(%s, %s)" % (a, b)
        return "(%s < %s ? %s : %s)" % (a, b, self.int_expr(ints, depth + 1), str(r.randint(0, 20)))

    def struct(self, sname, enums, use_leaf, use_span):
        r = self.r
        lines = ["struct %s:" % sname]
        off = 0          # static part of the cursor
        dyn = None       # name of a length field added to the cursor, if any
        ints, bools, enum_fields = [], [], []

        def cursor(extra=0):
            base = off + extra
            if dyn:
                return "%s + %d" % (dyn, base) if base else dyn
            return str(base)

        nfields = r.randint(3, 6)
        for _ in range(nfields):
            kind = r.choice(["uint", "int", "bits", "enum", "array", "cond", "leaf", "leafarr", "span", "be"])
            if kind in ("uint", "int", "be"):
                size = r.choice([1, 1, 2, 4])
                nm = self.name()
                ty = "Int" if kind == "int" else "UInt"
                lines.append("  %s [+%d]  %s  %s" % (cursor(), size, ty, nm))
                if kind == "be":
                    lines.append('    [byte_order: "BigEndian"]')
                if size <= 2 and r.random() < 0.25 and ty == "UInt":
                    lines.append("    [requires: this <= %d]" % r.randint(20, 200))
                off += size
                if size <= 2:
                    ints.append(nm)
            elif kind == "bits":
                nm1, nm2, nm3 = self.name("b"), self.name("b"), self.name("b")
                lines.append("  %s [+1]  bits:" % cursor())
                lines.append("    0 [+1]  Flag  %s" % nm1)
                lines.append("    1 [+3]  UInt  %s" % nm2)
                if enums and r.random() < 0.5:
                    lines.append("    4 [+4]  %s  %s" % (r.choice(enums)[0], nm3))
                else:
                    lines.append("    4 [+4]  Int  %s" % nm3)
                    ints.append(nm3)
                off += 1
                bools.append(nm1)
                ints.append(nm2)
            elif kind == "enum" and enums:
                nm = self.name("e")
                e = r.choice(enums)
                lines.append("  %s [+1]  %s  %s" % (cursor(), e[0], nm))
                off += 1
                enum_fields.append((nm, e))
            elif kind == "array" and dyn is None:
                ln = self.name("len")
                lines.append("  %s [+1]  UInt  %s" % (cursor(), ln))
                lines.append("    [requires: this <= %d]" % r.randint(2, 4))
                off += 1
                lines.append("  %s [+%s]  UInt:8[]  %s" % (cursor(), ln, self.name("arr")))
                dyn = ln
                ints.append(ln)
            elif kind == "cond" and (bools or ints or enum_fields):
                c = r.random()
                if bools and c < 0.35:
                    cond = r.choice(bools)
                elif enum_fields and c < 0.7:
                    nm, e = r.choice(enum_fields)
                    cond = "%s == %s" % (nm, r.choice(e[1]))
                elif ints:
                    cond = "%s %s %d" % (r.choice(ints), r.choice(["<", ">", "==", "!=", ">="]), r.randint(0, 5))
                else:
                    cond = r.choice(bools)
                nm = self.name("c")
                size = r.choice([1, 2])
                lines.append("  if %s:" % cond)
                lines.append("    %s [+%d]  UInt  %s" % (cursor(), size, nm))
                if r.random() < 0.5:
                    off += size  # sometimes the conditional field overlaps what follows
            elif kind == "leaf" and use_leaf:
                lines.append("  %s [+2]  Leaf  %s" % (cursor(), self.name("n")))
                off += 2
            elif kind == "leafarr" and use_leaf:
                lines.append("  %s [+4]  Leaf[2]  %s" % (cursor(), self.name("n")))
                off += 4
            elif kind == "span" and use_span and ints and dyn is None:
                k = r.choice(ints)
                # the parameter is a field value; keep the span small through the field's own range where possible
                lines.append("  %s [+2]  Span(2)  %s" % (cursor(), self.name("s")))
                off += 2
        for _ in range(r.randint(1, 3)):
            if ints:
                lines.append("  let %s = %s" % (self.name("v"), self.int_expr(ints)))
        if bools and ints and r.random() < 0.6:
            lines.append("  let %s = %s && %s > %d" % (self.name("q"), r.choice(bools), r.choice(ints), r.randint(0, 3)))
        if len(lines) == 1:
            lines.append("  0 [+1]  UInt  only")
        return "\n".join(lines) + "\n"

    def module(self):
        out = ["-- generated by tools/gen_corpus.py (seed %d); do not edit" % self.seed,
               '[$default byte_order: "LittleEndian"]', '[(cpp) namespace: "verif::gen%d"]' % self.seed, ""]
        enums = []
        for k in range(self.r.randint(1, 2)):
            text, vals = self.enum(k)
            out.append(text)
            enums.append(("Kind%d" % k, vals))
        leaf_text, _ = self.leaf()
        out.append(leaf_text)
        out.append(self.param_struct())
        for k in range(self.r.randint(2, 3)):
            out.append(self.struct("Gen%d" % k, enums, True, True))
        return "\n".join(out)


def main():
    count = int(sys.argv[1]) if len(sys.argv) > 1 else 8
    d = os.path.join(HERE, "corpus")
    for k in range(count):
        text = Gen(k).module()
        with open(os.path.join(d, "gen_%d.emb" % k), "w") as f:
            f.write(text)
    print("wrote %d modules" % count)


if __name__ == "__main__":
    main()
