#!/usr/bin/env python3
"""Regenerates /verif/MANIFEST.json from the table below (run after editing)."""
import json
import os

HERE = os.path.dirname(os.path.dirname(os.path.abspath(__file__)))

CHECKS = {
    "C05": dict(
        category="proof",
        technique="dynamic symbolic execution of the real Python transfer functions (pysym) + z3 Int/NIA (cvc5 fallback) per path",
        text="Bounded proof by counted solver obligations: one inductive step per operator of expression_bounds "
             "(soundness of interval and congruence, representation invariant, tightness witnesses) for every operand "
             "annotation with unbounded symbolic bounds and every operand value; moduli enumerated up to a stated bound; "
             "64-bit gate and C++ type choice for all integer ranges.  Step soundness for arbitrary abstract operands plus "
             "leaf soundness gives soundness of every expression by induction over the bottom-up annotation pass.",
        note="Assumes the representation invariant on operands (it is re-proved for every result); moduli <= 4 quick / 12 thorough; "
             "$max arity <= 3; trusted: z3, cvc5, CPython 3.11, pysym proxies, oracles in vf/checks/c05.py.",
        design="DESIGN.md section 3 C05",
    ),
}

CHECKS["C02"] = dict(
    category="model_checking",
    technique="clang -O2 LLVM IR of the runtime views -> z3 bit-vector/array terms (ll2smt), one query per obligation over all container contents and buffer lengths",
    text="Bounded-exhaustive by solver: for each configuration (type, width, container size, bit offset, byte order, buffer "
         "alignment) the compiled Ok()/Read() of the real view templates are compared with the documented decode for every "
         "content of the container and every buffer length 0..24; thorough enumerates the whole configuration space.",
    note="Verifies clang 14's x86-64 IR of runtime/cpp (not gcc's code); buffer base aligned as the template promises; "
         "reference decode in vf/kernels.py (DESIGN.md A.1); counterexamples are replayed natively under ASan+UBSan.",
    design="DESIGN.md section 3 C02",
)
CHECKS["C03"] = dict(
    category="model_checking",
    technique="clang -O2 LLVM IR of the runtime views -> z3 bit-vector/array terms (ll2smt); post-memory compared byte-for-byte by the solver",
    text="Bounded-exhaustive by solver: CouldWriteValue/TryToWrite of every configuration against the documented range, "
         "read-back, neighbour-bit and other-byte preservation and failed-write atomicity, for every initial buffer, "
         "length and every value of the full-width argument type.",
    note="Bcd writes only up to 16 (quick) / 32 (thorough) bits wide (division chains beyond do not bit-blast in time); "
         "same trusted base as C02.",
    design="DESIGN.md section 3 C03",
)

CHECKS["C01"] = dict(
    category="translation_validation",
    technique="translation validation per structure: generated header -> clang -O2 LLVM IR -> z3 (ll2smt) against a reference semantics in z3 (embz3), one equivalence query per observable",
    text="For every structure of the corpus the compiled view (Ok, IsComplete, SizeIsKnown/size, has_x, x().Ok(), "
         "x().Read(), array counts and elements) is proved equal to an independent reference semantics written from the "
         "language reference, for every buffer content, every length 0..N and every parameter value.  The quantifier "
         "over all programs is met only by the corpus (testdata/*.emb and /verif/corpus).",
    note="Reference trusts the front end's name resolution, $next/anonymous-bits desugaring and folded constants "
         "(the latter decided in C05); arrays up to 4 elements; clang 14 x86-64 IR; counterexamples replayed natively.",
    design="DESIGN.md section 3 C01",
)
CHECKS["C04"] = dict(
    category="model_checking",
    technique="reachability queries over clang LLVM IR (-O2 and -fsanitize=undefined,bounds -fsanitize-trap=all builds) executed symbolically with an explicit memory model (ll2smt)",
    text="Every load/store inside the backing buffer and aligned, every llvm.ubsantrap and __assert_fail site, every "
         "nuw/nsw/exact flag and llvm.assume: one unreachability query each, for all buffers of length 0..N (and the null "
         "buffer) and all values, over the leaf kernels of every scalar view and the checked entry points of the corpus structures.",
    note="Text output/UpdateFromText are outside (iostream/std::string are not encodable); buffer length bounded; "
         "base pointer aligned as the view type promises.",
    design="DESIGN.md section 3 C04",
)

NOT_APPLICABLE = {
}

PENDING = "not built yet (planned, see DESIGN.md section 0); not claimed until its check exists"


def main():
    checks = []
    for pid in sorted(CHECKS):
        c = CHECKS[pid]
        checks.append({
            "property_id": pid,
            "quick_cmd": "python3-vt /verif/check %s --tier quick" % pid,
            "thorough_cmd": "python3-vt /verif/check %s --tier thorough" % pid,
            "evidence_file": "/verif/evidence/%s.json" % pid,
            "replay_cmd_template": "python3-vt /verif/check %s --replay {path}" % pid,
            "engine": c.get("engine", "vf"),
            "level_claimed": {"category": c["category"], "text": c["text"], "design_ref": c["design"]},
            "level_note": c["note"],
            "technique": c["technique"],
        })
    na = []
    for i in range(1, 21):
        pid = "C%02d" % i
        if pid in CHECKS:
            continue
        na.append({"property_id": pid, "reason": NOT_APPLICABLE.get(pid, PENDING)})
    m = {
        "version": 1,
        "setup_cmd": "python3-vt -c \"import z3; print('z3', z3.get_version_string())\" && clang++ --version | head -1 && cvc5 --version | head -1",
        "hooks": {
            "guard": "GOOGLE_EMBOSS_VERIF",
            "enable": "no source hooks: the checks import /repo's Python modules and compile /repo's headers as they are",
            "baseline_off_cmd": "cd /repo && /venv/bin/python -m pytest -ra -q -p no:cacheprovider --timeout=900 --continue-on-collection-errors",
            "source_commits": [],
            "add_only": True,
        },
        "engines": [
            {"name": "pysym", "path": "vf/pysym.py", "serves_properties": ["C05", "C13", "C14", "C15", "C08", "C10"],
             "kind_free_text": "dynamic symbolic executor for /repo's Python functions (z3 Int terms, eager forking, re-execution DFS)"},
            {"name": "ll2smt", "path": "vf/ll2smt.py", "serves_properties": ["C01", "C02", "C03", "C04", "C19", "C20"],
             "kind_free_text": "clang -O2 LLVM IR of runtime/generated headers -> z3 bit-vector/array terms, path forking"},
        ],
        "checks": checks,
        "not_applicable": na,
        "notes": "Technique family: solver-based checking of the real code. See DESIGN.md.",
    }
    with open(os.path.join(HERE, "MANIFEST.json"), "w") as f:
        json.dump(m, f, indent=1)
    print("wrote MANIFEST.json: %d checks, %d not_applicable" % (len(checks), len(na)))


if __name__ == "__main__":
    main()
