#!/usr/bin/env python3
"""Regenerates /verif/MANIFEST.json from the table below (run after editing)."""
import json
import os

HERE = os.path.dirname(os.path.dirname(os.path.abspath(__file__)))

CHECKS = {
    "C05": dict(
        category="proof",
        technique="dynamic symbolic execution of the real Python transfer functions (pysym) + z3 Int/NIA (cvc5 fallback) per path",
        text="Bounded proof by counted solver obligations: one inductive step per operator of expression_bounds "
             "(soundness of interval and congruence, representation invariant, tightness witnesses) for every operand "
             "annotation with unbounded symbolic bounds and every operand value; moduli enumerated up to a stated bound; "
             "64-bit gate and C++ type choice for all integer ranges.  Step soundness for arbitrary abstract operands plus "
             "leaf soundness gives soundness of every expression by induction over the bottom-up annotation pass.  Layer (c): "
             "every (sub)expression of every corpus module is evaluated in z3 over its field/parameter variables and checked "
             "against its inferred interval, congruence, folded constant and (single-occurrence) tightness.",
        note="Assumes the representation invariant on operands (it is re-proved for every result); moduli <= 4 quick / 12 thorough; "
             "$max arity <= 3; trusted: z3, cvc5, CPython 3.11, pysym proxies, oracles in vf/checks/c05.py.",
        design="DESIGN.md section 3 C05",
    ),
}

CHECKS["C02"] = dict(
    category="model_checking",
    technique="clang -O2 LLVM IR of the runtime views -> z3 bit-vector/array terms (ll2smt), one query per obligation over all container contents and buffer lengths",
    text="Bounded-exhaustive by solver: for each configuration (type, width, container size, bit offset, byte order, buffer "
         "alignment) the compiled Ok()/Read() of the real view templates are compared with the documented decode for every "
         "content of the container and every buffer length 0..24; thorough enumerates the whole configuration space.",
    note="Verifies clang 14's x86-64 IR of runtime/cpp (not gcc's code); buffer base aligned as the template promises; "
         "reference decode in vf/kernels.py (DESIGN.md A.1); counterexamples are replayed natively under ASan+UBSan.",
    design="DESIGN.md section 3 C02",
)
CHECKS["C03"] = dict(
    category="model_checking",
    technique="clang -O2 LLVM IR of the runtime views -> z3 bit-vector/array terms (ll2smt); post-memory compared byte-for-byte by the solver",
    text="Bounded-exhaustive by solver: CouldWriteValue/TryToWrite of every configuration against the documented range, "
         "read-back, neighbour-bit and other-byte preservation and failed-write atomicity, for every initial buffer, "
         "length and every value of the full-width argument type.",
    note="Configurations: a boundary-biased seeded sample (quick) / a third of the full space per run, rotated by the seed (thorough). "
         "Bcd writes only up to 16 (quick) / 32 (thorough) bits wide (division chains beyond do not bit-blast in time); "
         "same trusted base as C02.  Structure level: writes through physical, alias and invertible virtual fields of the corpus (read-back, untouched bytes, failed-write atomicity, and a write succeeds only through a field that is present).",
    design="DESIGN.md section 3 C03",
)

CHECKS["C01"] = dict(
    category="translation_validation",
    technique="translation validation per structure: generated header -> clang -O2 LLVM IR -> z3 (ll2smt) against a reference semantics in z3 (embz3), one equivalence query per observable",
    text="For every structure of the corpus the compiled view (Ok, IsComplete, SizeIsKnown/size, has_x, x().Ok(), "
         "x().Read(), array counts and elements) is proved equal to an independent reference semantics written from the "
         "language reference, for every buffer content, every length 0..N and every parameter value.  The quantifier "
         "over all programs is met only by the corpus (testdata/*.emb and /verif/corpus).",
    note="Reference trusts the front end's name resolution, $next/anonymous-bits desugaring and folded constants "
         "(the latter decided in C05); arrays up to 4 elements; clang 14 x86-64 IR; counterexamples replayed natively.",
    design="DESIGN.md section 3 C01",
)
CHECKS["C04"] = dict(
    category="model_checking",
    technique="reachability queries over clang LLVM IR (-O2 and -fsanitize=undefined,bounds -fsanitize-trap=all builds) executed symbolically with an explicit memory model (ll2smt)",
    text="Every load/store inside the backing buffer and aligned, every llvm.ubsantrap and __assert_fail site, every "
         "nuw/nsw/exact flag and llvm.assume: one unreachability query each, for all buffers of length 0..N (and the null "
         "buffer) and all values, over the leaf kernels of every scalar view and the checked entry points of the corpus structures.",
    note="Kernel configurations: every sixth of the quick sample (quick) / an eighth of the full space per run, rotated by the seed "
         "(thorough).  Text output/UpdateFromText are outside (iostream/std::string are not encodable); buffer length bounded; "
         "base pointer aligned as the view type promises.",
    design="DESIGN.md section 3 C04",
)

CHECKS["C06"] = dict(
    category="model_checking",
    technique="symbolic execution of DecodeInteger<T> / WriteIntegerToTextStream<Stream,T> from clang -O2 LLVM IR (ll2smt) with z3 bit-vector queries: all texts of a stated shape, all values of each type; plus dynamic symbolic execution (pysym) of the front-end passes and header generator with the text_output attribute as a symbolic choice",
    text="Integer text codec clause only (the last sentence of the property).  Bounded: DecodeInteger is executed on every text "
         "of up to 6 (quick) / 7 (thorough) arbitrary bytes and on boundary families (a head of the type's limit in base 2/10/16 "
         "followed by free characters) for all eight integer types: accepted only if digits/underscores with at least one digit, "
         "in range, and with exactly the mathematical value (no wrap); documented formats in range are accepted; no access outside "
         "the string or *result.  decode(encode(x)) == x and 'output is a documented number format' for every x of every type in "
         "base 2 and 16 (with/without grouping) and in base 10 for 8/16-bit types.  Plus the Skip/Emit clause, decided in the "
         "compiler (E1, finite domain): the text_output attribute value is a symbolic choice flowing through the real front-end "
         "passes and header generator, for seven kinds of field; the generated text-output clause is present iff not Skip.  Emission "
         "order: for every permutation of a structure's fields_in_dependency_order (720 paths) the generated method writes the fields in "
         "exactly that order (that the order respects dependencies is C15); a mismatch is confirmed by a native WriteToString/"
         "UpdateFromText round trip of a structure declared in reverse dependency order.",
    note="NOT claimed: the rest of the structure level of C06 (UpdateFromText(WriteToString(view)) reads back equal, emission order, "
         "comments/multiline options) -- std::ostringstream/std::string growth/virtual dispatch are not encodable by ll2smt. "
         "Outside the bounds: decimal texts with more than 4 (quick) / 6 (thorough) free digits after a concrete head, base-10 "
         "round trip of 32/64-bit values (10^k chains do not bit-blast in time in z3 or cvc5).  Assumes libstdc++ std::string layout.",
    design="DESIGN.md section 3 C06 and Build status",
)

CHECKS["C12"] = dict(
    category="proof",
    technique="dynamic symbolic execution (pysym) of the whole front end on module templates whose definition and reference sites are filled from finite choice variables; the scoping rule of the property text is the oracle, evaluated per path",
    text="Finite domain, enumerated completely (counted obligations): types named Aa/Bb/absent at four definition sites (module, Outer, "
         "Outer.Mid, Side) plus a local type named like a prelude type, referenced from three positions in eight forms (bare, dotted, prelude "
         "name); own fields x abbreviation x reference; members through a dot; enum values qualified/bare/nested; duplicates in one scope vs. "
         "equal names in different scopes; one import (qualified, bare, wrong alias, clash with a local name); `this`.  Per combination the real "
         "front end must accept exactly when one definition is visible under the rule, bind the reference to that definition's canonical "
         "name, and give every definition a unique canonical name that ir_util.find_object maps back to the defining node.",
    note="The solver decides only the feasibility of the choice paths; the verdict per combination is the oracle predicate over the choices "
         "(same style as the module-level harnesses of C13/C14).  Outside: deeper nesting and longer paths than the templates, "
         "$next, several imports.  The oracle is the rule as stated in the property text (the language reference does not spell it out).",
    design="DESIGN.md Build status (C12) and section 4",
)

CHECKS["C09"] = dict(
    category="model_checking",
    technique="bisimulation of the two LR table sets decided by z3's Datalog fixed-point engine over the product of the pushdown automata",
    text="Finite-state and exhaustive: the shipped tables and tables freshly generated by the current code from "
         "module_ir.PRODUCTIONS and error_examples are loaded as Datalog facts; underivability of a Bad state pair proves the "
         "same action (shift/reduce production/accept/error code) in every reachable stack configuration, hence identical "
         "accept/reject, parse tree, error position and message for every token sequence of any length.",
    note="lr1.Parser.parse is the common driver; grammar.md production equality is an auxiliary finite set comparison.",
    design="DESIGN.md section 3 C09",
)
CHECKS["C20"] = dict(
    category="model_checking",
    technique="two views in one symbolic memory: clang -O2 LLVM IR of Equals/TryToCopyFrom -> z3 (ll2smt) against the reference equality and memmove post-state",
    text="For every corpus structure: Equals (called when both views are Ok) equals the reference logical equality for all "
         "pairs of buffers, lengths and placements (overlap included); TryToCopyFrom's return value, copied bytes "
         "(memmove semantics), untouched bytes and failure atomicity for all inputs; destination Ok and Equals the source afterwards.",
    note="Structures with Float fields and multi-dimensional arrays are outside; buffers up to 12 (quick) / 24 (thorough) bytes.",
    design="DESIGN.md section 3 C20",
)

CHECKS["C14"] = dict(
    category="proof",
    technique="dynamic symbolic execution of the real constraint functions (pysym) on real IR with the numeric quantity symbolic + z3 Int",
    text="Counted obligations, each 'rejected iff the documented numeric rule is violated' for every integer: scalar widths "
         "per prelude type (the real static_requirements of prelude.emb are what is evaluated), enum field width vs "
         "maximum_bits, enum values vs maximum_bits/is_signed, maximum_bits range, is_signed inference, bits <= 64, "
         "explicit size vs field size (named and anonymous bits), array element multiple of 8 bits.  Reserved words: the name of "
         "a field / type / enum value (17 name positions, nested and inline ones included) is a string of L unconstrained characters, "
         "L = 1..longest reserved word + 1, through the real constraints.check_constraints: rejected iff the string is in "
         "compiler/front_end/reserved_words (read by the check's own parser, united with the list printed in doc/grammar.md).",
    note="Numeric thresholds for every integer; byte-order presence with $default scoping, attribute placement/duplication/value "
         "tables and 'no byte-oriented members in bits' as finite-domain harnesses through the whole front end (and header "
         "generation for the (cpp) attributes).  Reserved words: a dictionary lookup of the symbolic name forks over the "
         "constants of equal length, z3 decides the equivalence per path for all strings of that length; precondition: the name differs "
         "from the module's other names (duplicates are rejected earlier).  Outside: names of runtime parameters and abbreviations "
         "(not named by the documentation), longer names.",
    design="DESIGN.md section 3 C14",
)

CHECKS["C13"] = dict(
    category="proof",
    technique="symbolic execution of the real type_check functions (pysym) with operator, arity and operand types as finite-domain solver variables; z3 evaluates the documented signature table per path",
    text="One inductive typing step for every operator (all 16), every arity and every operand-type vector over "
         "{integer, boolean, two enums, opaque}: accepted iff the documented signature admits it, documented result type, "
         "error located in the expression, no exception; plus the positional rules (field start/size, array length, "
         "existence condition, parameter definitions, passed parameters).  The domain is finite, so the paths enumerate it "
         "completely; nesting follows by induction because the checker sees a child only through its annotated type -- and the "
         "one place where that fails (an operand a failed check left without a type) is exercised directly: eight ill-typed "
         "subexpressions under every operator and typed position.  Through the whole front end: operators over constants reached "
         "directly, through static and through local references (before/after the definition, through two aliases), parameter "
         "definitions (declared type x use), $max with up to 13 arguments; every rejection must name the module's file, carry a "
         "position inside it and render with error.format_errors.",
    note="[requires] clauses and enum values are typed positions of the module-level harness; the documented-vs-implemented "
         "mismatch on enum ordering comparisons and enum-typed enum values are recorded known findings.",
    design="DESIGN.md section 3 C13",
)

CHECKS["C19"] = dict(
    category="model_checking",
    technique="clang -O2 LLVM IR of the generated enum helpers -> z3 (ll2smt, switch/lookup tables and strcmp modelled) against the definition; pysym for the underlying-type choice",
    text="Per enum, exhaustive by solver: EnumIsKnown and TryToGetNameFromEnum for every value of the underlying type, "
         "TryToGetEnumFromName for every NUL-terminated string in a buffer two bytes longer than the longest name, every "
         "enumerator (per documented enum_case spelling, with $default scoping resolved independently) against its declared "
         "value, underlying type size/signedness; _cpp_integer_type_for_enum for every maximum_bits.",
    note="Enums = those of the corpus (testdata + /verif/corpus/enums_edge.emb); operator<< is outside; enum fields are C02/C03.",
    design="DESIGN.md section 3 C19",
)

CHECKS["C15"] = dict(
    category="proof",
    technique="symbolic execution of the real Tarjan and ordering functions (pysym) over a Boolean edge matrix behind set proxies; z3 closure/topological oracles; every 3-node graph also compiled by the real front end",
    text="Counted obligations, complete inside the bound: _find_cycles returns exactly the strongly connected components "
         "containing a cycle for every graph on N nodes; the dependency ordering is a permutation that respects every "
         "dependency and keeps the source order whenever that is valid, for every acyclic graph on N nodes; the whole front "
         "end agrees on every 3-node graph of virtual fields (cycle error iff cyclic, emitted order valid).",
    note="N <= 3 (cycles) / 4 (ordering) quick, 4 / 5 thorough; Tarjan's paths each fix the whole matrix (case analysis), the "
         "ordering's paths cover sets of graphs.  Front end: every 3-node graph in nine renderings (virtual fields; physical fields "
         "depending through locations, conditions, type arguments; nodes spread over types and an enum; local and static references "
         "mixed in one structure -- static edges count for cycles, not for the field order) and every import graph on three modules "
         "(self-imports included).",
    design="DESIGN.md section 3 C15",
)

CHECKS["C10"] = dict(
    category="proof",
    technique="z3 regular-expression theory for the pattern table (language equivalence over all strings); symbolic execution of the real tokenizer over strings of solver-variable characters (pysym + symbolic `re` interpreter) against an independent tokenizer built from the documented table",
    text="Counted obligations: (a) every row of the published token table, the three name rules and a numeric-constant "
         "rule written from the language reference's prose denote the same language as the tokenizer's patterns (unbounded); "
         "(b) for every line of L characters over each character family and every text of up to 3-4 lines with symbolic "
         "leading whitespace, the real _tokenize_line/tokenize return exactly the tokens, texts, columns, Indent/Dedent "
         "sequence and errors of the documented longest-match/ties/indent-stack rules.",
    note="Bounded in line length and alphabet (families stated in the evidence); the compiled `re` patterns are replaced "
         "by a symbolic interpreter validated against `re` each run; str.splitlines is the environment.",
    design="DESIGN.md section 3 C10",
)

CHECKS["C08"] = dict(
    category="model_checking",
    technique="symbolic execution of the real lr1.Parser.parse over token strings of finite-domain solver variables (table rows fork over their own keys; pysym) with an independent Earley/derivation-count oracle; solver query on the symbolic offending token of every error path",
    text="Per grammar (a catalogue of epsilon-heavy, left/right-recursive, LR(1)-not-LALR(1), ambiguous and cyclic grammars, "
         "seeded random small CFGs, and the Emboss grammar) the real generator builds the tables; every token string up to the "
         "bound is covered by the explored paths: accepted paths carry a derivation tree of a derivable string, error paths stop at "
         "the first token no sentence can continue with (solver query over the still-symbolic token), no derivable string is "
         "rejected, conflict-free implies unambiguous up to the bound, catalogued ambiguous/non-LR(1) grammars report conflicts.",
    note="Grammars are configurations, not solver variables; string length bounded (6 catalogue / 5 random / 4 Emboss expression "
         "grammar in quick).",
    design="DESIGN.md section 3 C08",
)

NOT_APPLICABLE = {
    "C07": "whether an emitted header is well-formed C++ under each -std is decided by a C++ front end; there is no symbolic "
           "input and no arithmetic for a solver to range over -- the check would be running the compiler on samples, a different "
           "technique (DESIGN.md section 4)",
    "C11": "the formatter works on parse trees with str.format/join/ljust/rstrip over token texts and list surgery: built-ins that "
           "concretise any symbolic string; the only solver-expressible fragment (_columnize width arithmetic) decides neither token "
           "preservation nor idempotence (DESIGN.md section 4)",
    "C16": "the quantifier is over free text through tokenizer, a 16k-state parser, twelve IR passes and the back end; symbolic "
           "execution of that pipeline does not terminate on inputs long enough to pass the parser, and short inputs do not reach "
           "the passes where the risk lies; crash-freedom is an obligation inside the units of C05, C13, C14, C15 instead "
           "(DESIGN.md section 4)",
    "C17": "hash seed, process boundaries, repetition count and import-directory order are not values a solver can range over for "
           "CPython; deciding it means re-running the compiler, a different technique (DESIGN.md section 4)",
    "C18": "json.dumps/loads is C code (a stub would assume the property); the remaining to_dict/from_dict logic branches only on "
           "set/unset flags and node kinds, so each path is one concrete shape -- enumeration, not a solver verdict; "
           "SourceLocation.__str__/from_str needs unbounded int<->decimal-string conversion, which neither solver decides "
           "(DESIGN.md section 4)",
}

PENDING = "not built yet (planned, see DESIGN.md section 0); not claimed until its check exists"


def main():
    checks = []
    for pid in sorted(CHECKS):
        c = CHECKS[pid]
        checks.append({
            "property_id": pid,
            "quick_cmd": "python3-vt /verif/check %s --tier quick" % pid,
            "thorough_cmd": "python3-vt /verif/check %s --tier thorough" % pid,
            "evidence_file": "/verif/evidence/%s.json" % pid,
            "replay_cmd_template": "python3-vt /verif/check %s --replay {path}" % pid,
            "engine": c.get("engine", "vf"),
            "level_claimed": {"category": c["category"], "text": c["text"], "design_ref": c["design"]},
            "level_note": c["note"],
            "technique": c["technique"],
        })
    na = []
    for i in range(1, 21):
        pid = "C%02d" % i
        if pid in CHECKS:
            continue
        na.append({"property_id": pid, "reason": NOT_APPLICABLE.get(pid, PENDING)})
    m = {
        "version": 1,
        "setup_cmd": "python3-vt -c \"import z3; print('z3', z3.get_version_string())\" && clang++ --version | head -1 && cvc5 --version | head -1",
        "hooks": {
            "guard": "GOOGLE_EMBOSS_VERIF",
            "enable": "no source hooks: the checks import /repo's Python modules and compile /repo's headers as they are",
            "baseline_off_cmd": "cd /repo && /venv/bin/python -m pytest -ra -q -p no:cacheprovider --timeout=900 --continue-on-collection-errors",
            "source_commits": [],
            "add_only": True,
        },
        "engines": [
            {"name": "pysym", "path": "vf/pysym.py", "serves_properties": ["C05", "C06", "C12", "C13", "C14", "C15", "C08", "C10"],
             "kind_free_text": "dynamic symbolic executor for /repo's Python functions (z3 Int terms, eager forking, re-execution DFS)"},
            {"name": "ll2smt", "path": "vf/ll2smt.py", "serves_properties": ["C01", "C02", "C03", "C04", "C06", "C19", "C20"],
             "kind_free_text": "clang -O2 LLVM IR of runtime/generated headers -> z3 bit-vector/array terms, path forking"},
        ],
        "checks": checks,
        "not_applicable": na,
        "notes": "Technique family: solver-based checking of the real code. See DESIGN.md.",
    }
    with open(os.path.join(HERE, "MANIFEST.json"), "w") as f:
        json.dump(m, f, indent=1)
    print("wrote MANIFEST.json: %d checks, %d not_applicable" % (len(checks), len(na)))


if __name__ == "__main__":
    main()
