#!/usr/bin/env python3
"""Evaluates a seeded change: tools/seed_eval.py <seed_src_dir> <seed_id> <property> [check ids...]

1. copies it to /verif/seeded/<seed_id>/
2. in a scratch worktree: demo passes clean, fails with the patch, suite still passes with the patch
3. applies it to /repo, runs the listed checks (quick tier), reverts.
"""
import json
import os
import shutil
import subprocess
import sys
import time

VERIF = os.path.dirname(os.path.dirname(os.path.abspath(__file__)))


def sh(cmd, cwd=None, timeout=3600):
    p = subprocess.run(cmd, shell=True, cwd=cwd, capture_output=True, text=True, timeout=timeout)
    return p.returncode, (p.stdout + p.stderr)


def main():
    src, sid, prop = sys.argv[1], sys.argv[2], sys.argv[3]
    checks = sys.argv[4:] or [prop]
    tier = os.environ.get("SEED_TIER", "quick")
    dst = os.path.join(VERIF, "seeded", sid)
    if os.path.abspath(src) != os.path.abspath(dst):
        shutil.rmtree(dst, ignore_errors=True)
        shutil.copytree(src, dst)
    patch = os.path.join(dst, "patch.diff")
    meta_path = os.path.join(dst, "meta.json")
    meta = {"id": sid, "property": prop, "checks_run": {}, "evaluated_at": time.strftime("%Y-%m-%d %H:%M")}
    if os.path.exists(meta_path):
        try:
            old = json.load(open(meta_path))
            meta.update({k: v for k, v in old.items() if k in ("needs", "summary") or (k in ("confirmed", "checks_run") and os.environ.get("SEED_SKIP_CONFIRM"))})
        except Exception:
            pass
    notes = os.path.join(dst, "notes.md")
    if os.path.exists(notes) and "summary" not in meta:
        meta["summary"] = open(notes).read()[:1500]
    wt = "/tmp/wt_verify_%d" % os.getpid()
    if not os.environ.get("SEED_SKIP_CONFIRM"):
        sh("git -C /repo worktree add -q --detach %s HEAD" % wt)
        try:
            run = os.path.join(dst, "run.sh")
            rc0, out0 = sh("bash %s %s" % (run, wt))
            rc, out = sh("git apply %s" % patch, cwd=wt)
            if rc != 0:
                print("patch does not apply:", out)
                meta["confirmed"] = "patch does not apply to HEAD"
                json.dump(meta, open(meta_path, "w"), indent=1)
                return 2
            rc1, out1 = sh("bash %s %s" % (run, wt))
            rcs, outs = sh("/venv/bin/python -m pytest -q -p no:cacheprovider --timeout=900 --continue-on-collection-errors -q 2>&1 | tail -5", cwd=wt)
            meta["confirmed"] = {"demo_clean_exit": rc0, "demo_patched_exit": rc1, "suite_tail_with_patch": outs.strip().splitlines()[-4:]}
            print("demo clean exit=%d, patched exit=%d" % (rc0, rc1))
            print("suite with patch:", outs.strip().splitlines()[-1] if outs.strip() else "?")
        finally:
            sh("git -C /repo worktree remove --force %s" % wt)
    # run the checks against a scratch worktree with the patch applied (VERIF_REPO), or,
    # with SEED_ON_REPO=1, against /repo itself (apply, run, undo)
    on_repo = bool(os.environ.get("SEED_ON_REPO"))
    target = "/repo"
    if on_repo:
        rc, out = sh("git -C /repo status --porcelain")
        if out.strip():
            print("/repo not clean; abort")
            return 2
    else:
        target = "/tmp/wt_seedrun_%d" % os.getpid()
        sh("git -C /repo worktree add -q --detach %s HEAD" % target)
    rc, out = sh("git -C %s apply %s" % (target, patch))
    if rc != 0:
        print("cannot apply", out)
        return 2
    evdir = "/tmp/seed_evidence_%d" % os.getpid()
    os.makedirs(evdir, exist_ok=True)
    try:
        for c in checks:
            t0 = time.time()
            env = "" if on_repo else "VERIF_REPO=%s VERIF_EVIDENCE_DIR=%s " % (target, evdir)
            rc, out = sh("%spython3-vt %s/check %s --tier %s" % (env, VERIF, c, tier), cwd=VERIF, timeout=7200)
            viol = [l for l in out.splitlines() if l.startswith("VIOLATION")]
            desc = [l for l in out.splitlines() if l.startswith("  ")][:3]
            meta["checks_run"][c] = {"tier": tier, "exit": rc, "violations": len(viol), "first": desc[:2],
                                     "wall_s": round(time.time() - t0), "against": "/repo" if on_repo else "scratch worktree of /repo HEAD"}
            print("check %s: exit=%d violations=%d (%.0fs) %s" % (c, rc, len(viol), time.time() - t0, desc[:1]))
            if rc not in (0, 1):
                print("   tail:", out.strip().splitlines()[-3:])
    finally:
        if on_repo:
            sh("git -C /repo checkout -- .")
            sh("git -C %s checkout -- evidence" % VERIF)
        else:
            sh("git -C /repo worktree remove --force %s" % target)
        shutil.rmtree(evdir, ignore_errors=True)
    meta["detected_by"] = [c for c, v in meta["checks_run"].items() if v["exit"] == 1]
    json.dump(meta, open(meta_path, "w"), indent=1)
    return 0


if __name__ == "__main__":
    sys.exit(main())
