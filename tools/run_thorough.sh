#!/bin/bash
# usage: tools/run_thorough.sh <evidence dir> <id>...   (each thorough command end to end; one line per check)
ev=$1; shift
mkdir -p "$ev"
for id in "$@"; do
  s=$(date +%s)
  VERIF_EVIDENCE_DIR="$ev" python3-vt ./check "$id" --tier thorough > "$ev/log_$id.txt" 2>&1
  rc=$?
  e=$(date +%s)
  echo "$id rc=$rc $((e-s))s viol=$(grep -c '^VIOLATION' "$ev/log_$id.txt") known=$(grep -c '^KNOWN-FINDING' "$ev/log_$id.txt") inconclusive=$(grep -c '^INCONCLUSIVE' "$ev/log_$id.txt") harness=$(grep -c '^HARNESS-ERROR' "$ev/log_$id.txt") :: $(tail -1 "$ev/log_$id.txt" | cut -c1-150)"
done
